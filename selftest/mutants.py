"""Deliberate breakages used by selftest/sensitivity.py.  Each mutant is a
list of (file under src/pyhf, old text, new text[, occurrence]) replacements
applied to a scratch copy of /repo/src; `expect` is 'violation' or 'clean'
(controls that must not raise an alarm)."""

MUTANTS = {
    # ---------------- C03 ----------------------------------------------------
    "C03-code1-stale-bases": dict(prop="C03", expect="violation", edits=[
        ("interpolators/code1.py",
         """        self.alphasets_shape = alphasets_shape
        self.bases_up = tensorlib.einsum(
            'sa,shb->shab', tensorlib.ones(self.alphasets_shape), self.deltas_up
        )
        self.bases_dn = tensorlib.einsum(
            'sa,shb->shab', tensorlib.ones(self.alphasets_shape), self.deltas_dn
        )
""", """        self.alphasets_shape = alphasets_shape
""")]),
    "C03-code4-stale-ones-after-shape-change": dict(prop="C03", expect="violation", edits=[
        ("interpolators/code4.py",
         """        self.mask_off = tensorlib.zeros(self.alphasets_shape)
        self.ones = tensorlib.einsum(
            'sa,shb->shab', self.mask_on, self.broadcast_helper
        )
        return
""", """        self.mask_off = tensorlib.zeros(self.alphasets_shape)
        return
""")]),
    "C03-code4-Ainverse-digit": dict(prop="C03", expect="violation", edits=[
        ("interpolators/code4.py", "                    -7.0 / 16.0,\n                    -7.0 / 16.0,\n                    1.0 / 16 * alpha0,",
         "                    -7.0 / 16.0,\n                    -9.0 / 16.0,\n                    1.0 / 16 * alpha0,")]),
    "C03-code4p-coefficient": dict(prop="C03", expect="violation", edits=[
        ("interpolators/code4p.py", "tmp2 = asquare * tmp1 + 15.0", "tmp2 = asquare * tmp1 + 14.0")]),
    "C03-code0-slow-sign": dict(prop="C03", expect="violation", edits=[
        ("interpolators/code0.py", "delta = delta_down * alpha", "delta = delta_down * abs(alpha)")]),
    # ---------------- C11 ----------------------------------------------------
    "C11-shapefactor-not-subscribed": dict(prop="C11", expect="violation", edits=[
        ("modifiers/shapefactor.py", "        events.subscribe('tensorlib_changed')(self._precompute)\n", "")]),
    "C11-tensorviewer-not-subscribed": dict(prop="C11", expect="violation", edits=[
        ("tensor/common.py", "        events.subscribe('tensorlib_changed')(self._precompute)\n", "")]),
    "C11-fire-on-name-change-only": dict(prop="C11", expect="violation", edits=[
        ("tensor/manager.py", """        (new_backend.name != this.state['current'][0].name)
        | (new_backend.precision != this.state['current'][0].precision)
    )
    optimizer_changed""", """        (new_backend.name != this.state['current'][0].name)
    )
    optimizer_changed""")]),
    "C11-trigger-before-swap": dict(prop="C11", expect="violation", edits=[
        ("tensor/manager.py", """    # set new backend
    this.state['current'] = (new_backend, new_optimizer)
""", """    if tensorlib_changed:
        events.trigger("tensorlib_changed")()
        tensorlib_changed = False
    # set new backend
    this.state['current'] = (new_backend, new_optimizer)
""")]),
    "C11-callbacks-reversed": dict(prop="C11", expect="violation", edits=[
        ("events.py", "        for func, arg in self._callbacks:\n            # weakref: needs to be de-ref'd first before calling",
         "        for func, arg in reversed(self._callbacks):\n            # weakref: needs to be de-ref'd first before calling")]),
    "C11-flush-drops-live-entry": dict(prop="C11", expect="violation", edits=[
        ("events.py", "        self._callbacks = _callbacks\n", "        self._callbacks = _callbacks[1:] if len(_callbacks) != len(self._callbacks) else _callbacks\n")]),
    # ---------------- C14 ----------------------------------------------------
    "C14-strict-greater": dict(prop="C14", expect="violation", edits=[
        ("infer/calculators.py", "self.samples >= value, tensorlib.astensor(1)", "self.samples > value, tensorlib.astensor(1)")]),
    "C14-bkg-toys-at-poi-test": dict(prop="C14", expect="violation", edits=[
        ("infer/calculators.py", "            1.0 if self.test_stat == 'q0' else 0.0,\n            self.data,", "            poi_test,\n            self.data,")]),
    "C14-toys-at-init-pars": dict(prop="C14", expect="violation", edits=[
        ("infer/calculators.py", "        signal_pdf = self.pdf.make_pdf(signal_pars)", "        signal_pdf = self.pdf.make_pdf(tensorlib.astensor(self.init_pars))")]),
    "C14-distributions-swapped": dict(prop="C14", expect="violation", edits=[
        ("infer/calculators.py", "        return s_plus_b, b_only\n\n    def pvalues(self, teststat, sig_plus_bkg_distribution", "        return b_only, s_plus_b\n\n    def pvalues(self, teststat, sig_plus_bkg_distribution")]),
    "C14-normal-sample-ignores-scale": dict(prop="C14", expect="violation", edits=[
        ("tensor/numpy_backend.py", "return norm(self.loc, self.scale).rvs(size=sample_shape + self.loc.shape)", "return norm(self.loc, 1.0).rvs(size=sample_shape + self.loc.shape)")]),
    "C14-bkg-toy-generation-ignores-callers-fixed-and-bounds": dict(prop="C14", expect="violation", edits=[
        ("infer/calculators.py", """            1.0 if self.test_stat == 'q0' else 0.0,
            self.data,
            self.pdf,
            self.init_pars,
            self.par_bounds,
            self.fixed_params,
        )
        bkg_pdf""", """            1.0 if self.test_stat == 'q0' else 0.0,
            self.data,
            self.pdf,
            self.init_pars,
            self.pdf.config.suggested_bounds(),
            self.pdf.config.suggested_fixed(),
        )
        bkg_pdf""")]),
    "C17-apply-result-shares-patch-values": dict(prop="C17", expect="violation", edits=[
        ("patchset.py", "        return jsonpatch.JsonPatch(copy.deepcopy(self.patch)).apply(", "        return jsonpatch.JsonPatch(self.patch).apply(")]),
    # ---------------- C17 ----------------------------------------------------
    "C17-verify-first-algorithm-only": dict(prop="C17", expect="violation", edits=[
        ("patchset.py", """                    f"The digest verification failed for hash algorithm '{hash_alg}'. Expected: {digest}. Got: {digest_calc}"
                )
""", """                    f"The digest verification failed for hash algorithm '{hash_alg}'. Expected: {digest}. Got: {digest_calc}"
                )
            return
""")]),
    "C17-digest-unsorted": dict(prop="C17", expect="violation", edits=[
        ("utils.py", "json.dumps(obj, sort_keys=True, ensure_ascii=False)", "json.dumps(obj, ensure_ascii=False)")]),
    "C17-apply-in-place": dict(prop="C17", expect="violation", edits=[
        ("patchset.py", "return Workspace(self[key].apply(spec))", "return Workspace(self[key].apply(spec, in_place=True))")]),
    "C17-dup-values-check-removed": dict(prop="C17", expect="violation", edits=[
        ("patchset.py", "            if patch.values in self._patches_by_key:", "            if False:")]),
    # ---------------- C18 ----------------------------------------------------
    "C18-filecache-never-revalidated": dict(prop="C18", expect="violation", edits=[
        ("readxml.py", "    if cached is None or cached[2] != signature:", "    if cached is None:")]),
    "C18-const-flag-not-written": dict(prop="C18", expect="violation", edits=[
        ("writexml.py", "    if fixed_params:\n", "    if False:\n")]),
    "C18-shapesys-written-absolute": dict(prop="C18", expect="violation", edits=[
        ("writexml.py", "                    a, b, out=np.zeros_like(a), where=np.asarray(b) != 0, dtype='float'\n                )",
         "                    a, np.ones_like(b), out=np.zeros_like(a), where=np.asarray(b) != 0, dtype='float'\n                )")]),
    "C18-clear-filecache-noop-CONTROL": dict(prop="C18", expect="clean", edits=[
        ("readxml.py", "    global __FILECACHE__\n    __FILECACHE__ = {}\n", "    return\n")]),
    # ---------------- C19 ----------------------------------------------------
    "C19-test-poi-not-forwarded": dict(prop="C19", expect="violation", edits=[
        ("cli/infer.py", "    result = hypotest(\n        test_poi,", "    result = hypotest(\n        1.0,")]),
    "C19-cls-measurement-ignored": dict(prop="C19", expect="violation", edits=[
        ("cli/infer.py", "        measurement_name=measurement,\n        patches=patches,\n        modifier_settings={", "        measurement_name=None,\n        patches=patches,\n        modifier_settings={")]),
    "C19-combine-join-ignored": dict(prop="C19", expect="violation", edits=[
        ("cli/spec.py", "ws_one, ws_two, join=join, merge_channels=merge_channels", "ws_one, ws_two, join='none', merge_channels=merge_channels")]),
    "C19-fit-optimizer-conf-dropped": dict(prop="C19", expect="violation", edits=[
        ("cli/infer.py", "        set_backend(tensorlib, new_optimizer(**optconf))\n\n    with click.open_file(workspace", "        set_backend(tensorlib, new_optimizer())\n\n    with click.open_file(workspace")]),
    "C19-rename-file-branch-unrenamed": dict(prop="C19", expect="violation", edits=[
        ("cli/spec.py", "            json.dump(renamed_ws, out_file, indent=4, sort_keys=True)", "            json.dump(ws, out_file, indent=4, sort_keys=True)")]),
    "C19-inspect-text-wrong-nbins": dict(prop="C19", expect="violation", edits=[
        ("cli/spec.py", "        click.echo(fmtStr.format(channel, str(nbins)))", "        click.echo(fmtStr.format(channel, str(nbins + 1)))")]),
    # ---------------- C20 ----------------------------------------------------
    "C20-sample-length-check-removed": dict(prop="C20", expect="violation", edits=[
        ("pdf.py", "        if not len(nom) == self.config.channel_nbins[channel]:", "        if False:")]),
    "C20-two-configs-check-removed": dict(prop="C20", expect="violation", edits=[
        ("pdf.py", "        if parameter['name'] in _paramsets_user_configs:", "        if False:")]),
    "C20-dup-channel-check-removed": dict(prop="C20", expect="violation", edits=[
        ("pdf.py", "        if c['name'] in helper:\n", "        if False:\n")]),
    "C20-name-reuse-check-removed": dict(prop="C20", expect="violation", edits=[
        ("parameters/utils.py", "            if len(combined_paramset[k]) != 1:", "            if False:")]),
}
