#!/usr/bin/env python3
"""Sensitivity self-test: each mutant must make its driver's quick tier raise a
VIOLATION whose replay reproduces (controls must stay clean).

  python3 selftest/sensitivity.py [name-substring ...] [--segments N]
Scratch copies live under $VERIF_SCRATCH or /dev/shm and are removed right away.
"""
import argparse
import json
import os
import re
import shutil
import subprocess
import sys
import tempfile
from concurrent.futures import ThreadPoolExecutor

HERE = os.path.dirname(os.path.dirname(os.path.abspath(__file__)))
sys.path.insert(0, os.path.join(HERE, "selftest"))
from mutants import MUTANTS  # noqa: E402

SEGMENTS = {"C03": 240, "C11": 160, "C14": 96, "C17": 160, "C18": 320, "C19": 160, "C20": 48}


def run_one(name, segments, workers):
    m = MUTANTS[name]
    base = os.environ.get("VERIF_SCRATCH") or ("/dev/shm" if os.access("/dev/shm", os.W_OK) else tempfile.gettempdir())
    d = tempfile.mkdtemp(prefix=f"verif-mut-{name}-", dir=base)
    try:
        shutil.copytree("/repo/src", os.path.join(d, "src"), ignore=shutil.ignore_patterns("__pycache__", "*.pyc"))
        for edit in m["edits"]:
            p = os.path.join(d, "src", "pyhf", edit[0])
            s = open(p).read()
            if s.count(edit[1]) < 1:
                return name, "STALE", f"pattern not found in {edit[0]}"
            s = s.replace(edit[1], edit[2], 1)
            open(p, "w").write(s)
        env = dict(os.environ, VERIF_REPO_SRC=os.path.join(d, "src"))
        env.pop("VERIF_CHILD", None)
        r = subprocess.run([sys.executable, os.path.join(HERE, "run_check.py"), m["prop"], "--segments", str(segments or SEGMENTS[m["prop"]]),
                            "--workers", str(workers), "--no-evidence", "--seed", str(1000 + sorted(MUTANTS).index(name))],  # distinct seed per mutant: replay file names must not collide between parallel runs
                           env=env, capture_output=True, text=True, cwd=HERE)
        viol = re.findall(r"^VIOLATION property=(\S+) replay=(\S+)", r.stdout, re.M)
        first = re.search(r"^  oracle=.*$", r.stdout, re.M)
        if m["expect"] == "violation":
            if r.returncode == 1 and viol:
                # the replay must reproduce against the mutated tree and pass against the real one
                rp = viol[0][1]
                r2 = subprocess.run([sys.executable, os.path.join(HERE, "run_check.py"), m["prop"], "--replay", rp], env=env, capture_output=True, text=True, cwd=HERE)
                env3 = dict(env)
                env3.pop("VERIF_REPO_SRC")
                r3 = subprocess.run([sys.executable, os.path.join(HERE, "run_check.py"), m["prop"], "--replay", rp], env=env3, capture_output=True, text=True, cwd=HERE)
                ok = r2.returncode == 1 and r3.returncode == 0
                return name, "CAUGHT" if ok else "CAUGHT-but-replay-odd", f"{first.group(0).strip() if first else ''} replay_on_mutant={r2.returncode} replay_on_real={r3.returncode}"
            return name, "MISSED", f"rc={r.returncode} {r.stdout[-300:]}"
        return name, ("CLEAN" if r.returncode == 0 else "FALSE-ALARM"), f"rc={r.returncode} {(first.group(0) if first else '')}"
    finally:
        shutil.rmtree(d, ignore_errors=True)


def main():
    ap = argparse.ArgumentParser()
    ap.add_argument("names", nargs="*")
    ap.add_argument("--segments", type=int, default=None)
    ap.add_argument("--parallel", type=int, default=2)
    a = ap.parse_args()
    names = [n for n in MUTANTS if not a.names or any(x in n for x in a.names)]
    workers = max(2, 16 // a.parallel)
    bad = 0
    out = {}
    with ThreadPoolExecutor(a.parallel) as ex:
        for name, verdict, info in ex.map(lambda n: run_one(n, a.segments, workers), names):
            print(f"{verdict:24s} {name:44s} {info[:260]}", flush=True)
            out[name] = {"verdict": verdict, "info": info}
            if verdict not in ("CAUGHT", "CLEAN"):
                bad += 1
    with open(os.path.join(HERE, "selftest", "sensitivity_last.json"), "w") as f:
        json.dump(out, f, indent=1, sort_keys=True)
    print("SENSITIVITY", "OK" if not bad else f"{bad} problem(s)")
    return 1 if bad else 0


if __name__ == "__main__":
    sys.exit(main())
