#!/usr/bin/env python3
"""Determinism self-test: same (seed, property, segment) -> byte-equal event log,
whatever the worker count, process or PYTHONHASHSEED.

  python3 selftest/determinism.py C11 [--segments 32] [--seeds 1 2 3]
"""
import argparse
import json
import os
import subprocess
import sys
import tempfile

HERE = os.path.dirname(os.path.dirname(os.path.abspath(__file__)))


def run(prop, seed, segs, workers, hashseed, out):
    env = dict(os.environ, VERIF_HASHSEED=str(hashseed))
    env.pop("VERIF_CHILD", None)
    r = subprocess.run([sys.executable, os.path.join(HERE, "run_check.py"), prop, "--seed", str(seed),
                        "--segments", str(segs), "--workers", str(workers), "--wall", "100000",
                        "--no-evidence", "--digests-out", out], env=env, capture_output=True, text=True, cwd=HERE)
    if r.returncode not in (0,):
        print(r.stdout[-2000:], r.stderr[-2000:])
        raise SystemExit(f"run failed rc={r.returncode}")
    with open(out) as f:
        return json.load(f)


def main():
    ap = argparse.ArgumentParser()
    ap.add_argument("props", nargs="+")
    ap.add_argument("--segments", type=int, default=32)
    ap.add_argument("--seeds", type=int, nargs="+", default=[11, 12])
    a = ap.parse_args()
    bad = 0
    tmp = tempfile.mkdtemp(prefix="verif-det-")
    for prop in a.props:
        for seed in a.seeds:
            d1 = run(prop, seed, a.segments, 16, 0, os.path.join(tmp, "a.json"))
            d2 = run(prop, seed, a.segments, 3, 12345, os.path.join(tmp, "b.json"))
            diff = [k for k in sorted(set(d1) | set(d2), key=int) if d1.get(k) != d2.get(k)]
            print(f"{prop} seed={seed}: {len(d1)} segments, {len(diff)} differing digests {diff[:10]}")
            bad += len(diff)
    print("DETERMINISM", "OK" if not bad else "FAILED")
    return 1 if bad else 0


if __name__ == "__main__":
    sys.exit(main())
