"""C14 - toy p-values are exact tail fractions of correctly sampled pseudo-data.

The simulator owns every random draw pyhf makes: either the real generators
with a logged seed set immediately before each sampling call, or a scripted
sampler substituted at tensorlib.poisson_dist/normal_dist (log_prob stays
real).  It also records the history of one toy experiment (which pdf was
sampled at which parameters, which rows went to the statistic).
"""
from __future__ import annotations

import math
import random

import numpy as np

from sim import core
from sim.gen import specs
from sim.ref import counting as C

ID = "C14"
LEVEL = "exploration"
TIERS = {
    "quick": {"segments": 192, "wall": 150, "min_budget": 90},
    "thorough": {"segments": 6000, "wall": 1500, "min_budget": 600},
}
SEGMENT_TIMEOUT = 900
SAMPLE_MAXOPS = 6
RULE = (
    "segment = seeded script of empirical/sample/toys/toy_history ops with reseed faults and backend switches; the "
    "RNG is either seeded right before every sampling call or replaced by a scripted sampler; non-trivial = a toy "
    "experiment judged against an exact tail sum, a sampling check with at least one constrained parameter, or an "
    "empirical p-value query on a tie; distinct = different (op kind, mode, backend, precision, test statistic, number "
    "of bins, hypothesis pair digest / model digest) tuples"
)
STATE_MEASURE = "abstract state per toy experiment = (mode, backend, precision, test statistic, number of bins, route)"
ASSUMPTIONS = [
    "exact reference: closed-form profile-likelihood statistics for mu*s+b counting models (sim/ref/counting.py, independent 1-D root finding) and exact Poisson tail sums",
    "scripted sampler replaces only .sample() of the objects returned by tensorlib.poisson_dist/normal_dist (class-level shadow, restored afterwards); log_prob is real",
    "stratified quantile script: empirical cdf within 1/(2N) of the Poisson cdf, so scripted one-bin toy p-values must match exact tails within 1/N with no statistical slack",
    "seeded statistical checks use exact tail probabilities (Poisson / binomial / chi-square / normal) with per-test threshold 1e-9; sample-variance of Poisson columns uses an 8-sigma normal bound",
    "the library's own fixed_poi_fit defines 'conditional best-fit nuisance parameters'",
]
COMPONENTS = {
    "real": ["pyhf.infer.calculators.EmpiricalDistribution/ToyCalculator", "pyhf.infer.hypotest(calctype='toybased')", "pyhf.probability / Model.make_pdf().sample", "all four backends' samplers (seeded mode)", "optimisers (fits inside toys)"],
    "stub": ["scripted sampler (rate-revealing, sigma-revealing, stratified quantiles)", "RNG seeds owned by the simulator", "history recorder on make_pdf().sample and get_test_stat"],
}
EXPECTED_PROBES = ["toys_scripted_exact", "toys_seeded_binomial", "sample_scripted_exact", "sample_seeded_stat", "empirical_tie_query", "history_checked", "hypotest_route"]

BACKENDS = ["numpy", "jax", "pytorch", "tensorflow"]


def _counting(rng, nbins):
    while True:
        s = [round(rng.uniform(2.0, 12.0), 3) for _ in range(nbins)]
        b = [round(rng.uniform(3.0, 30.0), 3) for _ in range(nbins)]
        mu = round(rng.choice([0.4, 0.7, 1.0, 1.0, 1.5, 2.2]) * rng.uniform(0.8, 1.2), 3)
        # knife edge of the reference: mu_hat == mu exactly when n == mu*s+b (1 bin)
        if all(abs((mu * si + bi) - round(mu * si + bi)) > 0.25 for si, bi in zip(s, b)) and \
                all(abs(bi - round(bi)) > 0.2 for bi in b):
            return s, b, mu


def gen(rng: random.Random, k: int, tier: str) -> dict:
    cfg = {"backend_w": rng.choice([0.0, 0.0, 0.3, 0.6]), "len": rng.randint(2, 7), "fault_rate": rng.choice([0.0, 0.2, 0.4])}
    ops = []
    cur = ("numpy", "64b")
    for _ in range(cfg["len"]):
        if rng.random() < cfg["backend_w"]:
            cur = (rng.choice(BACKENDS), rng.choice(["64b", "64b", "32b"]))
            ops.append({"op": "switch", "backend": cur[0], "precision": cur[1]})
        if rng.random() < cfg["fault_rate"]:
            ops.append({"op": "reseed", "seed": rng.randrange(1 << 30)})
        kind = rng.choices(["empirical", "sample", "toys", "toy_history"], weights=[2, 3, 3 if cur[0] == "numpy" else 0.7, 1.5])[0]
        if kind == "empirical":
            n = rng.randint(1, 40)
            # 'all sample vectors and observed values': also negative samples/observations and other magnitudes
            # (offsets and scales are exact in float32, so both precisions see the same numbers)
            off = -0.25 * rng.randint(1, 10) if rng.random() < 0.4 else 0.0
            scl = rng.choice([1.0, 1.0, 1.0, 2.0 ** -20, 2.0 ** 20])
            pool = [(rng.randint(0, 12) * 0.25 + off) * scl for _ in range(rng.randint(1, 8))]
            samples = [rng.choice(pool) for _ in range(n)]
            if rng.random() < 0.2:
                # -2 ln(0) = +inf is a legal value of a likelihood-ratio statistic: such toys count like any other
                for _ in range(rng.randint(1, 3)):
                    samples[rng.randrange(n)] = rng.choice([math.inf, math.inf, -math.inf])
            fin = [x for x in samples if math.isfinite(x)] or [0.0]
            qs = sorted(set(([math.inf, -math.inf] if rng.random() < 0.3 else []) + rng.sample(samples, min(len(samples), 4)) + [min(fin) - 0.5 * scl, max(fin) + 0.5 * scl, -1.0 * scl, 0.0,
                                                                          (rng.randint(0, 12) * 0.25 + 0.125 + off) * scl, (rng.randint(0, 12) * 0.25 + off) * scl,
                                                                          (min(fin) + max(fin)) / 2]))
            ops.append({"op": "empirical", "samples": samples, "queries": qs})
        elif kind == "sample":
            ws = specs.gen_workspace(rng, max_channels=2, max_samples=2, max_bins=3, n_meas=(1, 1))
            mode = rng.choice(["rate", "sigma", "seeded", "seeded"])
            ops.append({"op": "sample", "ws": ws, "pt": rng.randrange(1 << 30), "mode": mode,
                        "n": rng.choice([4000, 8000, 20000]) if mode == "seeded" else rng.randint(1, 5),
                        "seed": rng.randrange(1 << 30)})
        elif kind == "toys":
            nbins = rng.choice([1, 1, 1, 2])
            s, b, mu = _counting(rng, nbins)
            ts = rng.choice(["qtilde", "qtilde", "q0", "q"])
            poi_hi = None
            if ts != "q0" and rng.random() < 0.2:
                # the caller widens the POI range and tests a value beyond the default upper bound (10)
                poi_hi = 40.0
                while True:
                    s = [round(rng.uniform(0.3, 1.2), 3) for _ in range(nbins)]
                    mu = round(rng.uniform(11.0, 25.0), 3)
                    if all(abs((mu * si + bi) - round(mu * si + bi)) > 0.25 for si, bi in zip(s, b)):
                        break
            lam_gen = [(1.0 if ts == "q0" else mu) * si + bi for si, bi in zip(s, b)]
            nobs = [max(0, int(round(l + rng.choice([-1.5, -0.7, 0, 0.6, 1.4, 2.5]) * math.sqrt(l)))) for l in lam_gen]
            if rng.random() < 0.08:
                nobs = [0] * nbins
            mode = "scripted" if nbins == 1 and rng.random() < 0.6 else "seeded"
            heavy = cur[0] != "numpy"
            ops.append({"op": "toys", "s": s, "b": b, "mu": 0.0 if ts == "q0" else mu, "nobs": nobs, "test_stat": ts,
                        "ntoys": rng.choice([40, 60]) if heavy else rng.choice([200, 400] if mode == "scripted" else [150, 300, 500]),
                        "mode": mode, "seed": rng.randrange(1 << 30), "route": rng.choice(["calculator", "calculator", "hypotest"]), "poi_hi": poi_hi,
                        # a POI scan on ONE calculator object: distributions() is first called at another mu
                        "scan_first": (round(mu * (rng.choice([0.5, 2.0]) if poi_hi is None else rng.choice([0.5, 0.8])), 3) if ts != "q0" and rng.random() < 0.45 else None),
                        # order of the calls in a scan: per-mu (statistic, distributions) or all observed statistics first
                        "scan_order": rng.choice(["interleaved", "stats_first", "stats_then_dists", "stats_then_dists"])})
        else:
            kindm = rng.choice(["shapesys", "staterror", "normsys", "histosys"])
            nb = rng.choice([1, 2])
            ops.append({"op": "toy_history", "mod": kindm, "nbins": nb,
                        "s": [round(rng.uniform(3, 9), 2) for _ in range(nb)], "b": [round(rng.uniform(20, 60), 2) for _ in range(nb)],
                        "unc": [round(rng.uniform(2, 8), 2) for _ in range(nb)], "obs": [float(rng.randint(18, 70)) for _ in range(nb)],
                        "mu": round(rng.uniform(0.3, 2.0), 2), "test_stat": rng.choice(["qtilde", "qtilde", "q0"]),
                        "ntoys": rng.randint(3, 7), "seed": rng.randrange(1 << 30),
                        # the caller's own fit configuration: 'conditional best fit' then means conditional on it as well
                        "custom": rng.choice([None, None, "bounds", "fixed_nuisance", "init"])})
    return {"cfg": cfg, "ops": ops}


def simplify(op):
    if op["op"] == "switch":
        if op["backend"] != "numpy":
            yield dict(op, backend="numpy")
        if op["precision"] != "64b":
            yield dict(op, precision="64b")
    elif op["op"] == "toys":
        if op["ntoys"] > 60:
            yield dict(op, ntoys=60)
        if op["route"] != "calculator":
            yield dict(op, route="calculator")
    elif op["op"] == "sample":
        n = 0
        for w in specs.shrink_workspace(op["ws"]):
            yield dict(op, ws=w)
            n += 1
            if n > 12:
                break


def dedupe_key(sig):
    return [sig.get("cls"), sig.get("what")]


# ---------------------------------------------------------------------------
# scripted samplers
# ---------------------------------------------------------------------------

class _Scripted:
    def __init__(self, real, kind, args, world):
        self._real, self._kind, self._args, self._w = real, kind, args, world

    def log_prob(self, value):
        return self._real.log_prob(value)

    def sample(self, sample_shape):
        w = self._w
        tl = w.pyhf.tensorlib
        w.script_calls += 1
        mode = w.script
        if self._kind == "poisson":
            rate = np.asarray(tl.tolist(self._args[0]), dtype=np.float64)
            if mode in ("rate", "sigma"):
                out = np.broadcast_to(rate, tuple(sample_shape) + rate.shape).copy()
            elif mode == "stratified":
                from scipy.stats import poisson

                (n,) = sample_shape
                u = (np.arange(n) + 0.5) / n
                out = np.stack([poisson.ppf(u, r) for r in rate.reshape(-1)], axis=-1).reshape((n,) + rate.shape)
            else:
                raise core.HarnessError(f"unknown script {mode}")
        else:
            loc = np.asarray(tl.tolist(self._args[0]), dtype=np.float64)
            scale = np.broadcast_to(np.asarray(tl.tolist(self._args[1]), dtype=np.float64), loc.shape)
            base = loc + scale if mode == "sigma" else loc
            out = np.broadcast_to(base, tuple(sample_shape) + loc.shape).copy()
        return tl.astensor(out)


class World:
    def __init__(self, scratch):
        import pyhf

        self.pyhf = pyhf
        import logging

        logging.getLogger("pyhf").setLevel(logging.CRITICAL)

    def begin(self, ctx, cfg):
        self.ctx, self.cfg = ctx, cfg
        self.pyhf.set_backend("numpy", precision="64b")
        self.reg = ("numpy", "64b")
        self.script = None
        self.script_calls = 0
        self._patched = None

    def end(self):
        self._unscript()

    def run(self, op):
        import warnings

        with warnings.catch_warnings():
            warnings.simplefilter("ignore")
            return getattr(self, "op_" + op["op"])(op)

    # -- RNG ownership ----------------------------------------------------------
    def _seed(self, seed):
        np.random.seed(seed % (2**32))
        if self.reg[0] == "pytorch":
            import torch

            torch.manual_seed(seed)
        elif self.reg[0] == "tensorflow":
            import tensorflow as tf

            tf.random.set_seed(seed)
        self.ctx.fault("rng_reseed")

    def _do_script(self, mode):
        tl = self.pyhf.tensorlib
        cls = type(tl)
        if self._patched:
            self._unscript()
        orig_p, orig_n = cls.poisson_dist, cls.normal_dist
        world = self

        def poisson_dist(self_, rate):
            return _Scripted(orig_p(self_, rate), "poisson", (rate,), world)

        def normal_dist(self_, mu, sigma):
            return _Scripted(orig_n(self_, mu, sigma), "normal", (mu, sigma), world)

        cls.poisson_dist, cls.normal_dist = poisson_dist, normal_dist
        self._patched = (cls, orig_p, orig_n)
        self.script = mode
        self.script_calls = 0
        self.ctx.fault("rng_script")

    def _unscript(self):
        if self._patched:
            cls, p, n = self._patched
            cls.poisson_dist, cls.normal_dist = p, n
            self._patched = None
        self.script = None

    def op_reseed(self, op):
        self._seed(op["seed"])
        return "ok"

    def op_switch(self, op):
        self._unscript()
        self.pyhf.set_backend(op["backend"], precision=op["precision"])
        self.reg = (op["backend"], op["precision"])
        return "/".join(self.reg)

    def _np(self, x):
        return np.asarray(self.pyhf.tensorlib.tolist(x), dtype=np.float64)

    # -- (a) empirical tail fractions -----------------------------------------------
    def _check_empirical(self, dist, samples, queries, what):
        ctx = self.ctx
        eps = core.EPS[self.reg[1]]
        prev = None
        out = []
        for v in sorted(queries):
            ctx.c.oracle_evals["empirical"] += 1
            try:
                form = (len(out) + (int(abs(v) * 4) % 1000 if math.isfinite(v) else 0)) % 3     # observed value as float, as 0-d tensor, as int when integral
                arg = v
                if form == 1:
                    arg = self.pyhf.tensorlib.astensor(v)
                elif form == 2 and float(v).is_integer():
                    arg = int(v)
                p = float(self._np(dist.pvalue(arg)))
            except Exception as e:
                ctx.fail("empirical", {"cls": "empirical", "what": "raises"}, f"pvalue({v}) raised {type(e).__name__}: {e}")
                return
            k = sum(1 for s in samples if s >= v)
            want = k / len(samples)
            if any(s == v for s in samples):
                ctx.probe("empirical_tie_query")
                ctx.mark_nontrivial(["empirical", self.reg, what, len(samples), k])
            ctx.check(abs(p - want) <= 4 * eps and 0.0 <= p <= 1.0, "empirical", {"cls": "empirical", "what": "fraction"},
                      lambda: f"pvalue({v}) = {p!r}, but {k} of {len(samples)} samples are >= it ({want!r}); samples={samples[:30]} backend={self.reg}")
            if prev is not None:
                ctx.check(p <= prev + 4 * eps, "empirical", {"cls": "empirical", "what": "monotone"}, f"pvalue increased from {prev} to {p} at {v}")
            prev = p
            out.append(p)
        return out

    def op_empirical(self, op):
        pyhf = self.pyhf
        tl = pyhf.tensorlib
        dist = pyhf.infer.calculators.EmpiricalDistribution(tl.astensor(np.asarray(op["samples"], dtype=np.float64)))
        return core.fhex(self._check_empirical(dist, op["samples"], op["queries"], "synthetic") or [])

    # -- (b) sampling -----------------------------------------------------------------
    def _aux_reference(self, model, pars):
        """(kind, loc/rate, sigma) per auxiliary column, built by parameter name from the config."""
        cols = []
        cfg = model.config
        for name in cfg.auxdata_order:
            ps = cfg.param_set(name)
            vals = pars[cfg.par_slice(name)]
            if ps.pdf_type == "normal":
                for v, sg in zip(vals, ps.width()):
                    cols.append(("normal", float(v), float(sg)))
            else:
                for v, f in zip(vals, ps.factors):
                    cols.append(("poisson", float(v) * float(f), None))
        return cols

    def op_sample(self, op):
        pyhf, ctx = self.pyhf, self.ctx
        tl = pyhf.tensorlib
        ws = op["ws"]
        try:
            model = pyhf.Workspace(ws).model()
        except Exception as e:
            raise core.HarnessError(f"generated model does not build: {e}")
        r = random.Random(op["pt"])
        init, bounds = model.config.suggested_init(), model.config.suggested_bounds()
        pars = np.asarray([min(max(v + r.uniform(-1, 1) * 0.4 * min(2.0, (hi - lo) / 2), lo + 1e-3), hi) for v, (lo, hi) in zip(init, bounds)])
        ftype = np.float64 if self.reg[1] == "64b" else np.float32
        pars = pars.astype(ftype).astype(np.float64)
        n, mode = op["n"], op["mode"]
        nmain, naux = model.config.nmaindata, model.config.nauxdata
        sig = {"cls": "sample", "mode": mode}
        eps = core.EPS[self.reg[1]]
        aux = self._aux_reference(model, pars)
        if len(aux) != naux:
            raise core.HarnessError("aux reference length mismatch")
        main_rate = self._np(model.expected_actualdata(tl.astensor(pars)))
        if aux:
            ctx.mark_nontrivial(["sample", mode, self.reg, core.short(core.canon(ws), 8)])
        try:
            if mode == "seeded":
                self._seed(op["seed"])
            else:
                self._do_script(mode)
            try:
                smp = model.make_pdf(tl.astensor(pars)).sample((n,))
                if mode != "seeded" and op["pt"] % 3 == 0:
                    # a two-dimensional sample shape must simply prepend both dimensions
                    smp2 = model.make_pdf(tl.astensor(pars)).sample((2, 3))
                    sh2 = tuple(tl.shape(smp2))
                    ctx.check(sh2 == (2, 3, nmain + naux), "sample", dict(sig, what="shape"), f"sample((2,3)) has shape {sh2}, expected (2, 3, {nmain + naux})")
            finally:
                self._unscript()
        except Exception as e:
            ctx.fail("sample", dict(sig, what="raises"), f"make_pdf(pars).sample(({n},)) raised {type(e).__name__}: {e}; backend={self.reg}")
            return "raised"
        shape = tuple(tl.shape(smp))
        ctx.check(shape == (n, nmain + naux), "sample", dict(sig, what="shape"), f"sample shape {shape}, requested ({n}, {nmain}+{naux})")
        if shape != (n, nmain + naux):
            return "shape"
        x = self._np(smp)
        if mode in ("rate", "sigma"):
            want = list(main_rate) + [(c[1] + c[2] if (mode == "sigma" and c[0] == "normal") else c[1]) for c in aux]
            want = np.asarray(want)
            ok = np.all(np.abs(x - want[None, :]) <= 64 * eps * (np.abs(want[None, :]) + 1e-30))
            ctx.c.oracle_evals["sample_scripted"] += 1
            ctx.check(bool(ok), "sample", dict(sig, what="pairing"),
                      lambda: f"scripted ({mode}-revealing) sample row {x[0].tolist()} != reference by parameter name {want.tolist()} "
                              f"(main rates then aux in auxdata_order {model.config.auxdata_order}); backend={self.reg}")
            ctx.probe("sample_scripted_exact")
            return core.fhex(x[0])
        # seeded: statistical checks with exact tails
        from scipy import stats

        ctx.probe("sample_seeded_stat")
        alpha = 1e-9
        cols = [("poisson", float(l), None) for l in main_rate] + aux
        for j, (kind, loc, sg) in enumerate(cols):
            col = x[:, j]
            ctx.c.oracle_evals["sample_stat_tests"] += 1
            where = "main" if j < nmain else "aux"
            if kind == "poisson":
                ctx.check(bool(np.all(col >= 0) and np.all(col == np.round(col))), "sample", dict(sig, what="integer_counts"),
                          lambda: f"{where} column {j}: not all non-negative integers: {col[:10]}")
                tot = float(col.sum())
                p = 2 * min(stats.poisson.cdf(tot, n * loc), stats.poisson.sf(tot - 1, n * loc))
                ctx.check(p >= alpha, "sample", dict(sig, what="mean"),
                          lambda: f"{where} column {j}: sum of {n} draws = {tot}, expected Poisson({n}*{loc}); two-sided exact tail {p:.3g}; backend={self.reg}")
                var = float(col.var(ddof=1))
                sd_var = math.sqrt((loc + 2 * loc * loc) / n)
                ctx.check(abs(var - loc) <= 8 * sd_var + 1e-3 * loc * (self.reg[1] == "32b"), "sample", dict(sig, what="variance"),
                          lambda: f"{where} column {j}: sample variance {var} vs rate {loc} (8 sigma = {8 * sd_var:.3g}); backend={self.reg}")
            else:
                m = float(col.mean())
                z = (m - loc) / (sg / math.sqrt(n))
                slack = 4 * eps * abs(loc) / (sg / math.sqrt(n))
                ctx.check(abs(z) <= 6.5 + slack, "sample", dict(sig, what="mean"),
                          lambda: f"aux column {j}: mean {m} vs constraint centre {loc} (sigma {sg}): z = {z:.2f}; backend={self.reg}")
                chi = float(((col - m) ** 2).sum()) / (sg * sg)
                p = 2 * min(stats.chi2.cdf(chi, n - 1), stats.chi2.sf(chi, n - 1))
                ctx.check(p >= alpha or self.reg[1] == "32b" and abs(chi / (n - 1) - 1) < 0.2, "sample", dict(sig, what="variance"),
                          lambda: f"aux column {j}: sum of squares / sigma^2 = {chi:.1f} on {n - 1} dof (exact chi2 tail {p:.3g}); backend={self.reg}")
        # independence: the joint pdf is a product, so no two columns may be correlated
        live = [j for j in range(x.shape[1]) if x[:, j].std() > 0]
        if len(live) >= 2:
            cc = np.corrcoef(x[:, live], rowvar=False)
            lim = 7.0 / math.sqrt(n)
            for a in range(len(live)):
                for b_ in range(a + 1, len(live)):
                    ctx.c.oracle_evals["sample_stat_tests"] += 1
                    if abs(cc[a, b_]) > lim:
                        ctx.fail("sample", dict(sig, what="independence"),
                                 f"columns {live[a]} and {live[b_]} of {n} sampled rows have correlation {cc[a, b_]:.4f} (7 sigma = {lim:.4f}); "
                                 f"main columns 0..{nmain - 1}, aux {nmain}..{nmain + naux - 1}; backend={self.reg}")
                        return "correlated"
            ctx.probe("sample_independence_checked")
        return core.fhex(x[:3])

    # -- (c) toy p-values against exact tails --------------------------------------------
    def _counting_model(self, s, b):
        spec = {"channels": [{"name": "c", "samples": [
            {"name": "sig", "data": s, "modifiers": [{"name": "mu", "type": "normfactor", "data": None}]},
            {"name": "bkg", "data": b, "modifiers": []}]}]}
        return self.pyhf.Model(spec, poi_name="mu")

    def op_toys(self, op):
        pyhf, ctx = self.pyhf, self.ctx
        tl = pyhf.tensorlib
        if self.reg[1] != "64b":
            ctx.probe("toys_skipped_32b")  # single-precision fits are too coarse for an exact comparison
            return "noop"
        s, b, mu, ts, N = op["s"], op["b"], op["mu"], op["test_stat"], op["ntoys"]
        ftype = np.float64 if self.reg[1] == "64b" else np.float32
        s = [float(ftype(v)) for v in s]
        b = [float(ftype(v)) for v in b]
        model = self._counting_model(s, b)
        data = np.asarray(op["nobs"], dtype=np.float64)
        sig = {"cls": "toys", "mode": op["mode"], "test_stat": ts}
        hi = op.get("poi_hi") or 10.0
        bkw = {"par_bounds": [(0.0, hi)]} if op.get("poi_hi") else {}
        if bkw:
            ctx.probe("toys_callers_poi_bounds")
        q_obs_ref = C.stat(ts, mu, op["nobs"], s, b, 0.0, hi)
        try:
            if op["mode"] == "scripted":
                self._do_script("stratified")
            else:
                self._seed(op["seed"])
            try:
                if op["route"] == "hypotest":
                    ctx.probe("hypotest_route")
                    res = pyhf.infer.hypotest(mu, data, model, calctype="toybased", ntoys=N, test_stat=ts,
                                              return_tail_probs=True, return_calculator=True, track_progress=False, **bkw)
                    calc = res[-1]
                    if op["mode"] == "scripted":
                        self.script_calls = 0
                    else:
                        self._seed(op["seed"])
                    # same draws again (seed/script are owned by us) to get at the distributions
                    q_obs = calc.teststatistic(mu)
                    sb, bo = calc.distributions(mu)
                    clsb, clb, cls_ = calc.pvalues(q_obs, sb, bo)
                    if ts == "q0":
                        h_clsb, h_clb = float(self._np(res[0])), float(self._np(res[1][0]))
                    else:
                        h_clsb, h_clb = float(self._np(res[1][0])), float(self._np(res[1][1]))
                    ctx.check(abs(h_clsb - float(self._np(clsb))) < 1e-12 and abs(h_clb - float(self._np(clb))) < 1e-12, "toys",
                              dict(sig, what="hypotest_vs_calculator"),
                              lambda: f"hypotest tail probs ({h_clsb},{h_clb}) differ from the calculator's on identical draws ({clsb},{clb})")
                else:
                    calc = pyhf.infer.calculators.ToyCalculator(data, model, ntoys=N, test_stat=ts, track_progress=False, **bkw)
                    q_first = None
                    if op.get("scan_first") is not None and op.get("scan_order") in ("stats_first", "stats_then_dists"):
                        # the observed statistics of the whole scan first, the toy distributions afterwards: the last
                        # statistic evaluated before distributions(mu) belongs to ANOTHER mu
                        ctx.probe("calculator_scan_stats_first")
                        q_first = calc.teststatistic(mu)
                        calc.teststatistic(op["scan_first"])
                        if op["scan_order"] == "stats_then_dists":
                            # ... and the distributions of the other scan point are built first as well
                            calc.distributions(op["scan_first"])
                            if op["mode"] == "scripted":
                                self.script_calls = 0
                            else:
                                self._seed(op["seed"])
                    elif op.get("scan_first") is not None:
                        ctx.probe("calculator_reused_for_second_poi")
                        calc.teststatistic(op["scan_first"])
                        calc.distributions(op["scan_first"])
                        if op["mode"] == "scripted":
                            self.script_calls = 0
                        else:
                            self._seed(op["seed"])
                    q_obs = calc.teststatistic(mu) if q_first is None else q_first
                    sb, bo = calc.distributions(mu)
                    clsb, clb, cls_ = calc.pvalues(q_obs, sb, bo)
            finally:
                self._unscript()
        except Exception as e:
            ctx.fail("toys", dict(sig, what="raises", route=op["route"], exc=type(e).__name__),
                     f"toy experiment via {op['route']} raised {type(e).__name__}: {str(e)[:300]}; backend={self.reg}")
            return "raised"
        q_obs = float(self._np(q_obs))
        clsb, clb = float(self._np(clsb)), float(self._np(clb))
        tol32 = 1e-3 if self.reg[1] == "32b" else 1e-6
        ctx.check(abs(q_obs - q_obs_ref) <= tol32 * max(1.0, q_obs_ref) * 50, "toys", dict(sig, what="qobs"),
                  lambda: f"observed {ts} = {q_obs!r}, closed form {q_obs_ref!r} (s={s}, b={b}, n={op['nobs']}, mu={mu})")
        # empirical distributions are exact fractions of their own samples
        for dist, nm in ((sb, "s+b"), (bo, "b")):
            smp = [float(v) for v in self._np(dist.samples)]
            ctx.check(len(smp) == N, "toys", dict(sig, what="ntoys"), f"{nm} distribution has {len(smp)} samples, requested {N}")
            self._check_empirical(dist, smp, [q_obs, 0.0, max(smp) + 1.0] + smp[:2], "toys")
        # what the calculator reports for an observed value is exactly the two tail fractions (and their ratio), also for
        # values beyond every toy
        smp_sb = [float(v) for v in self._np(sb.samples)]
        smp_b = [float(v) for v in self._np(bo.samples)]
        for v in (q_obs, max(smp_sb + smp_b) + 1.0, 0.0, sorted(smp_b)[len(smp_b) // 2]):
            try:
                a_, b_, c_ = (float(self._np(t)) for t in calc.pvalues(tl.astensor(v), sb, bo))
            except Exception as e:
                ctx.fail("toys", dict(sig, what="pvalues_raises"), f"pvalues({v}) raised {type(e).__name__}: {e}")
                break
            fa = sum(1 for x in smp_sb if x >= v) / len(smp_sb)
            fb = sum(1 for x in smp_b if x >= v) / len(smp_b)
            ctx.c.oracle_evals["toys_pvalues_fraction"] += 1
            ctx.check(abs(a_ - fa) <= 1e-12 and abs(b_ - fb) <= 1e-12, "toys", dict(sig, what="pvalues_fraction"),
                      lambda: f"pvalues({v}) reports (CL_s+b, CL_b) = ({a_!r}, {b_!r}); the fractions of toys >= it are ({fa!r}, {fb!r}) of {len(smp_sb)}/{len(smp_b)}")
            if fb > 0:
                ctx.check(abs(c_ - fa / fb) <= 1e-9 * max(1.0, fa / fb), "toys", dict(sig, what="pvalues_ratio"),
                          lambda: f"pvalues({v}): CL_s = {c_!r}, CL_s+b/CL_b = {fa / fb!r}")
            else:
                ctx.probe("toys_clb_zero")
        delta = (1e-2 if self.reg[1] == "32b" else 1e-6) * max(1.0, q_obs_ref)
        mu_alt = 1.0 if ts == "q0" else 0.0
        cache = {}
        lo_sb, hi_sb = C.tail(ts, mu, q_obs_ref, op["nobs"], s, b, mu, delta, hi=hi, cache=cache)
        lo_b, hi_b = C.tail(ts, mu, q_obs_ref, op["nobs"], s, b, mu_alt, delta, hi=hi, cache=cache)
        ctx.mark_nontrivial(["toys", op["mode"], self.reg, ts, len(s), core.short(core.canon([s, b, mu, op["nobs"]]), 8)])
        ctx.state(["toys", op["mode"], self.reg, ts, len(s), op["route"]])
        if op["mode"] == "scripted":
            tol = 1.0 / N + 1e-12
            ctx.c.oracle_evals["toys_scripted"] += 1
            for got, lo, hi, nm, mg in ((clsb, lo_sb, hi_sb, "CL_s+b", mu), (clb, lo_b, hi_b, "CL_b", mu_alt)):
                ctx.check(lo - tol <= got <= hi + tol, "toys", dict(sig, what="tail_" + nm),
                          lambda: f"{nm} from {N} stratified toys = {got!r}; exact P({ts} >= q_obs | mu={mg}) in [{lo!r}, {hi!r}] (tol {tol:.4g}); "
                                  f"s={s} b={b} n_obs={op['nobs']} mu_test={mu} q_obs={q_obs!r}; backend={self.reg}")
            ctx.probe("toys_scripted_exact")
        else:
            from scipy import stats

            ctx.c.oracle_evals["toys_seeded"] += 1
            for got, lo, hi, nm, mg in ((clsb, lo_sb, hi_sb, "CL_s+b", mu), (clb, lo_b, hi_b, "CL_b", mu_alt)):
                kk = int(round(got * N))
                # interval hypothesis p in [lo, hi]: 'too few' is least surprising at lo, 'too many' at hi
                p = min(1.0, 2 * min(stats.binom.cdf(kk, N, max(0.0, lo)), stats.binom.sf(kk - 1, N, min(1.0, hi))))
                ctx.check(p >= 1e-9, "toys", dict(sig, what="tail_" + nm),
                          lambda: f"{nm}: {kk} of {N} toys >= q_obs, exact tail probability in [{lo!r}, {hi!r}] (binomial tail {p:.3g}); "
                                  f"s={s} b={b} n_obs={op['nobs']} mu_test={mu}; backend={self.reg}")
            ctx.probe("toys_seeded_binomial")
        return core.fhex([clsb, clb])

    # -- (d) which hypothesis, which parameters -----------------------------------------------
    def op_toy_history(self, op):
        pyhf, ctx = self.pyhf, self.ctx
        tl = pyhf.tensorlib
        if self.reg[1] != "64b":
            ctx.probe("history_skipped_32b")
            return "noop"
        nb = op["nbins"]
        mods_b = {
            "shapesys": [{"name": "shape_b", "type": "shapesys", "data": op["unc"]}],
            "staterror": [{"name": "staterror_c", "type": "staterror", "data": op["unc"]}],
            "normsys": [{"name": "ns", "type": "normsys", "data": {"hi": 1.1, "lo": 0.9}}],
            "histosys": [{"name": "hs", "type": "histosys", "data": {"hi_data": [v + u for v, u in zip(op["b"], op["unc"])],
                                                                      "lo_data": [v - 0.5 * u for v, u in zip(op["b"], op["unc"])]}}],
        }[op["mod"]]
        spec = {"channels": [{"name": "c", "samples": [
            {"name": "sig", "data": op["s"], "modifiers": [{"name": "mu", "type": "normfactor", "data": None}]},
            {"name": "bkg", "data": op["b"], "modifiers": mods_b}]}]}
        model = pyhf.Model(spec, poi_name="mu")
        data = np.asarray(op["obs"] + list(model.config.auxdata), dtype=np.float64)
        ts, mu, N = op["test_stat"], (0.0 if op["test_stat"] == "q0" else op["mu"]), op["ntoys"]
        sig = {"cls": "history", "test_stat": ts}
        sampled = []       # (pars, shape, rows)
        orig_make = model.make_pdf

        def make_pdf(pars):
            pdf = orig_make(pars)
            real_sample = pdf.sample

            def sample(sample_shape=()):
                out = real_sample(sample_shape)
                sampled.append((self._np(pars), tuple(sample_shape), self._np(out)))
                return out

            pdf.sample = sample
            return pdf

        model.make_pdf = make_pdf
        init = list(model.config.suggested_init())
        bounds = [list(b_) for b_ in model.config.suggested_bounds()]
        fixed = list(model.config.suggested_fixed())
        custom = op.get("custom")
        nuis = [i for i in range(model.config.npars) if i != model.config.poi_index]
        if custom == "bounds":
            # a tight box around the nominal nuisance values: the conditional fits end on its edge
            for i in nuis:
                bounds[i] = [init[i] - 0.02, init[i] + 0.02] if op["mod"] in ("normsys", "histosys") else [0.98, 1.02]
            ctx.probe("history_custom_bounds")
        elif custom == "fixed_nuisance":
            i = nuis[0]
            init[i] = init[i] + 0.3 if op["mod"] in ("normsys", "histosys") else 1.07
            fixed[i] = True
            ctx.probe("history_custom_fixed")
        elif custom == "init":
            for i in nuis:
                init[i] = init[i] + (0.4 if op["mod"] in ("normsys", "histosys") else 0.05)
        ckw = {} if custom is None else {"init_pars": init, "par_bounds": bounds, "fixed_params": fixed}
        calc = pyhf.infer.calculators.ToyCalculator(data, model, ntoys=N, test_stat=ts, track_progress=False, **ckw)
        self._seed(op["seed"])
        try:
            sb, bo = calc.distributions(mu)
        except Exception as e:
            ctx.fail("history", dict(sig, what="raises"), f"distributions({mu}) raised {type(e).__name__}: {e}; backend={self.reg}")
            return "raised"
        finally:
            del model.make_pdf
        ctx.probe("history_checked")
        ctx.mark_nontrivial(["history", self.reg, ts, op["mod"], nb])
        ctx.check(len(sampled) == 2 and all(sh == (N,) for _, sh, _ in sampled), "history", dict(sig, what="sample_calls"),
                  lambda: f"expected two sample(({N},)) calls, saw {[(sh) for _, sh, _ in sampled]}")
        if len(sampled) != 2:
            return "calls"
        mu_alt = 1.0 if ts == "q0" else 0.0
        ref_sig = self._np(pyhf.infer.mle.fixed_poi_fit(mu, data, model, init_pars=init, par_bounds=bounds, fixed_params=fixed))
        ref_bkg = self._np(pyhf.infer.mle.fixed_poi_fit(mu_alt, data, model, init_pars=init, par_bounds=bounds, fixed_params=fixed))
        rel = 1e-3 if self.reg[1] == "32b" else 1e-6
        poi = model.config.poi_index

        def close(a, b_):
            return a.shape == b_.shape and bool(np.all(np.abs(a - b_) <= rel * (1 + np.abs(b_))))

        # which of the two recorded samples belongs to which hypothesis (order is not judged)
        (p0, _, rows0), (p1, _, rows1) = sampled
        if close(p0, ref_sig) and close(p1, ref_bkg):
            rows_sig, rows_bkg = rows0, rows1
        elif close(p1, ref_sig) and close(p0, ref_bkg) and not close(ref_sig, ref_bkg):
            rows_sig, rows_bkg = rows1, rows0
        else:
            ctx.fail("history", dict(sig, what="generation_point"),
                     f"pseudo-data were generated at {p0.tolist()} and {p1.tolist()}; conditional best fits are "
                     f"mu={mu}: {ref_sig.tolist()} and mu={mu_alt}: {ref_bkg.tolist()} (poi index {poi}); backend={self.reg}")
            return "point"
        tfun = pyhf.infer.utils.get_test_stat(ts)
        for rows, dist, nm in ((rows_sig, sb, "s+b"), (rows_bkg, bo, "b-only")):
            mine = sorted(float(self._np(tfun(mu, tl.astensor(r), model, init, bounds, fixed))) for r in rows)
            theirs = sorted(float(v) for v in self._np(dist.samples))
            ok = len(mine) == len(theirs) and all(abs(a - b_) <= 1e-6 + rel * 100 * abs(b_) for a, b_ in zip(mine, theirs))
            ctx.c.oracle_evals["history"] += 1
            ctx.check(ok, "history", dict(sig, what="statistic_rows"),
                      lambda: f"{nm} distribution {theirs} is not the statistic at mu={mu} evaluated on the rows sampled under that hypothesis {mine}; backend={self.reg}")
        return core.fhex([p0, p1])
