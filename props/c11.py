"""C11 - results are independent of the history of backend switches.

World: the process-global (tensorlib, optimizer) register, the event bus with
its weak references, object lifetimes and the (scheduled) garbage collector.
Oracle: every surviving object behaves like a twin built fresh under the
current backend; switches never fail because something died.
"""
from __future__ import annotations

import copy
import gc
import random

import numpy as np

from sim import core
from sim.gen import specs

ID = "C11"
LEVEL = "exploration"
TIERS = {
    "quick": {"segments": 400, "wall": 130, "min_budget": 90},
    "thorough": {"segments": 4000, "wall": 1500, "min_budget": 600},
}
SEGMENT_TIMEOUT = 2400   # deep jax/TF-heavy segments on a loaded machine; a real hang still ends the worker
SAMPLE_MAXOPS = 16
RULE = (
    "segment = seeded history of create/switch/bad_switch/drop/gc/storm/eval/infer ops over the global backend "
    "register and event bus; non-trivial = an eval/infer of an object that has survived at least one real "
    "tensorlib change since birth; distinct = different (object kind, sequence of (backend,precision) it lived "
    "through (last 5), optimizer, op kind) tuples"
)
STATE_MEASURE = "abstract state after each create/drop/switch = (backend, precision, optimizer) x sorted multiset of (object kind, birth backend, birth precision, real changes survived (<=3))"
ASSUMPTIONS = [
    "a twin built now from the same arguments defines 'evaluates as a freshly created one' (real pyhf code, not a model)",
    "8 ulp of the working precision tolerated between object and twin (same code path: bit-identical expected)",
    "default backend stays numpy/64b (set_backend(default=True) is out of the property's quantifier)",
    "cyclic GC runs only at scheduled gc ops; refcounting is real CPython",
    "process restart between segments is emulated by dropping all objects, clearing the event bus and set_backend('numpy')",
]
COMPONENTS = {
    "real": ["pyhf (all of src/pyhf)", "numpy", "scipy", "jax", "torch", "tensorflow+tfp", "iminuit", "CPython refcounting"],
    "stub": ["cyclic GC (scheduled by simulator)", "process restart (canonical reset)", "fresh twin objects as reference model"],
}
EXPECTED_PROBES = ["eval_after_real_change", "eval_after_precision_change", "sub_died_before_switch", "switch_real_change"]

BACKENDS = ["numpy", "jax", "pytorch", "tensorflow"]
PRECS = ["64b", "32b"]
OPTS = ["scipy", "minuit"]
COST = {"numpy": 1.0, "pytorch": 2.0, "tensorflow": 4.0, "jax": 6.0}


# ---------------------------------------------------------------------------
# generation
# ---------------------------------------------------------------------------

def _gen_create(rng, oid, cfg):
    kind = rng.choices(["model", "interp", "tv", "pv", "sub_func", "sub_lambda", "sub_method"],
                       weights=cfg["create_w"])[0]
    if kind == "model":
        ws = specs.gen_workspace(rng, max_channels=2, max_samples=2, max_bins=3, n_meas=(1, 2))
        mi = rng.randrange(len(ws["measurements"]))
        args = {
            "ws": ws, "meas": mi,
            "how": rng.choice(["workspace", "workspace", "model"]),
            "batch": rng.choice([None, None, None, 1, 2, 3]),
            "normsys_code": rng.choice(["code4", "code4", "code1"]),
            "histosys_code": rng.choice(["code4p", "code4p", "code0", "code2"]),
            # construction options that end up inside the main model: lower clipping per sample / per bin, no POI
            "clip_sample": rng.choice([None, None, None, 0.0, 8.0]),
            "clip_bin": rng.choice([None, None, None, 0.0, 20.0]),
            "nopoi": rng.random() < 0.08,
        }
    elif kind == "interp":
        code = rng.choice([0, 1, 2, 4, "4p"])
        ns, nh, nb = rng.randint(1, 3), rng.randint(1, 2), rng.randint(1, 3)
        hs = []
        for _ in range(ns):
            hh = []
            for _ in range(nh):
                nom = [round(rng.uniform(5, 50), 3) for _ in range(nb)]
                if code in (1, 4):
                    hh.append([[round(rng.uniform(0.5, 0.98), 3)] * nb, [1.0] * nb, [round(rng.uniform(1.02, 1.8), 3)] * nb])
                else:
                    hh.append([[round(v * rng.uniform(0.6, 0.98), 3) for v in nom], nom,
                               [round(v * rng.uniform(1.02, 1.5), 3) for v in nom]])
            hs.append(hh)
        args = {"code": code, "hist": hs}
    elif kind == "tv":
        n = rng.randint(2, 8)
        perm = list(range(n))
        rng.shuffle(perm)
        k = rng.randint(1, min(3, n))
        cuts = sorted(rng.sample(range(1, n), k - 1)) if k > 1 else []
        parts = [perm[a:b] for a, b in zip([0] + cuts, cuts + [n])]
        args = {"indices": parts, "names": [f"p{i}" for i in range(len(parts))], "batch": None}
    elif kind == "pv":
        sizes = [rng.randint(1, 3) for _ in range(rng.randint(1, 4))]
        names = [f"q{i}" for i in range(len(sizes))]
        sel = [n for n in names if rng.random() < 0.6] or names[:1]
        rng.shuffle(sel)
        args = {"sizes": sizes, "names": names, "sel": sel, "batch": rng.choice([None, None, 2])}
    else:
        args = {}
    return {"op": "create", "id": oid, "kind": kind, "args": args}


def gen(rng: random.Random, k: int, tier: str) -> dict:
    deep = tier == "thorough" and k % 3 == 2   # thorough: every third segment is a three times longer history
    nb = rng.choice([1, 2, 2, 3, 4, 4])
    backends = sorted(rng.sample(BACKENDS, nb), key=BACKENDS.index)
    if rng.random() < 0.5 and "numpy" not in backends:
        backends = ["numpy"] + backends[: max(1, nb - 1)]
    precs = rng.choice([["64b"], ["64b", "32b"], ["64b", "32b"], ["32b", "64b"]])
    cfg = {
        "backends": backends,
        "precs": precs,
        "fault_rate": rng.choice([0.0, 0.1, 0.2, 0.35]),
        "create_w": [rng.choice([2, 4, 6]), rng.choice([1, 2]), rng.choice([0, 1]), rng.choice([0, 1]),
                     rng.choice([0, 1, 2]), rng.choice([0, 1]), rng.choice([0, 1, 2])],
        "infer_w": rng.choice([0.0, 0.5, 1.0, 1.5]),
        "reuse_buffers": rng.random() < 0.35,
        "len": rng.randint(8, 36) * (3 if deep else 1),
    }
    ops = []
    live: dict[int, str] = {}
    nextid = 0
    cur = ("numpy", "64b", "scipy")
    budget = 60.0 * (3 if deep else 1)  # rough cost units so that jax/TF heavy segments stay short
    for _ in range(cfg["len"]):
        if budget <= 0:
            break
        nmodels = sum(1 for v in live.values() if v == "model")
        w = {
            "create": 3.0 if len(live) < (10 if deep else 6) else 0.0,
            "switch": 4.0,
            "eval": 5.0 if live else 0.0,
            "evalmany": 1.5 if len(live) > 1 else 0.0,
            "infer": 1.5 * cfg["infer_w"] if nmodels else 0.0,
            "drop": 1.5 if live else 0.0,
            "gc": 0.6,
            "storm": 4 * cfg["fault_rate"],
            "bad_switch": 2 * cfg["fault_rate"],
        }
        if not live:
            w["create"] = 8.0
        kinds = list(w)
        kind = rng.choices(kinds, weights=[w[x] for x in kinds])[0]
        if kind == "create":
            op = _gen_create(rng, nextid, cfg)
            if op["kind"] == "model" and nmodels >= 4:
                continue
            live[nextid] = op["kind"]
            nextid += 1
            budget -= 1.0 * COST[cur[0]] if op["kind"] == "model" else 0.2
            ops.append(op)
            # a fault right after state creation
            if rng.random() < cfg["fault_rate"]:
                ops.append({"op": "gc"})
        elif kind == "switch":
            r = rng.random()
            if r < 0.12:
                tgt = cur  # same name, same precision: no real change
            elif r < 0.3:
                tgt = (cur[0], rng.choice(cfg["precs"]), rng.choice(OPTS))  # precision/optimizer only
            else:
                tgt = (rng.choice(cfg["backends"]), rng.choice(cfg["precs"]), rng.choice(OPTS))
            op = {"op": "switch", "backend": tgt[0], "precision": tgt[1], "optimizer": tgt[2],
                  "bform": rng.choice(["str", "str", "bytes", "instance", "upper"]),
                  "oform": rng.choice(["str", "str", "bytes", "instance", "none"]),
                  "pform": rng.choice(["str", "bytes", "default"])}
            cur = tgt
            budget -= 0.3 * COST[cur[0]] * (1 + nmodels)
            ops.append(op)
            # first use of an old model after the switch is inference (not a plain evaluation), then it is evaluated
            olds = sorted(i for i, v in live.items() if v == "model")
            if olds and rng.random() < 0.2:
                oid = rng.choice(olds)
                ops.append({"op": "infer", "id": oid, "what": rng.choice(["fit", "fit", "fixed"]), "grad": rng.choice([None, None, True, False]),
                            "stitch": rng.random() < 0.3})
                ops.append({"op": "eval", "id": oid, "pt": rng.randrange(1 << 30)})
                budget -= 4.5 * COST[cur[0]] * (3 if cur[0] == "jax" else 1)
        elif kind == "evalmany":
            ids = [i for i in sorted(live) if not live[i].startswith("sub_")]
            if len(ids) < 2:
                continue
            oid = rng.choice(ids)
            same = [i for i in ids if live[i] == live[oid]]
            pick = rng.sample(same, min(len(same), rng.randint(2, 3))) if len(same) > 1 else rng.sample(ids, 2)
            ops.append({"op": "evalmany", "evals": [{"id": i, "pt": rng.randrange(1 << 30)} for i in pick]})
            budget -= sum((1.5 if live[i] == "model" else 0.2) for i in pick) * COST[cur[0]]
        elif kind == "eval":
            oid = rng.choice(sorted(live))
            if live[oid].startswith("sub_"):
                continue
            ops.append({"op": "eval", "id": oid, "pt": rng.randrange(1 << 30)})
            budget -= (1.5 if live[oid] == "model" else 0.2) * COST[cur[0]]
        elif kind == "infer":
            ids = sorted(i for i, v in live.items() if v == "model")
            oid = rng.choice(ids)
            heavy = cur[0] in ("jax", "tensorflow")
            if heavy and rng.random() < 0.6:
                continue
            light = 0.0 if heavy else 1.0
            what = rng.choices(["fit", "fixed", "hypotest", "twice_nll", "teststat", "uncert", "hypotest_q", "toys", "limit"],
                               weights=[3, 2, 1 if not heavy else 0.3, 1.0, 1.0 if not heavy else 0.3, 0.8 * (cur[2] == "minuit"),
                                        0.5 * light, 0.5 * light, 0.25 * light])[0]
            op = {"op": "infer", "id": oid, "what": what,
                  "grad": rng.choice([None, None, True, False]), "stitch": rng.random() < 0.3}
            if what in ("teststat", "hypotest_q"):
                op["test_stat"] = rng.choice(["qtilde", "q", "q0", "tmu", "tmu_tilde"] if what == "teststat" else ["q", "q0"])
                op["poi"] = rng.choice([0.5, 1.0, 2.0])
            if what == "toys":
                op["seed"] = rng.randrange(1 << 30)
                op["ntoys"] = rng.randint(3, 6)
            ops.append(op)
            budget -= {"fit": 3, "fixed": 3, "hypotest": 12, "twice_nll": 1, "teststat": 6, "uncert": 4, "hypotest_q": 12, "toys": 30, "limit": 50}[what] \
                * COST[cur[0]] * (3 if cur[0] == "jax" else 1)
            # fit, then look at the model: whatever inference left behind on the object (lazily rebuilt caches, traced
            # values) must not change how it evaluates afterwards
            if rng.random() < 0.5:
                ops.append({"op": "eval", "id": oid, "pt": rng.randrange(1 << 30)})
                budget -= 1.5 * COST[cur[0]]
        elif kind == "drop":
            oid = rng.choice(sorted(live))
            del live[oid]
            ops.append({"op": "drop", "id": oid})
            if rng.random() < 0.3:
                ops.append({"op": "gc"})
        elif kind == "gc":
            ops.append({"op": "gc"})
        elif kind == "storm":
            ops.append({"op": "storm", "n": rng.randint(2, 12), "keep": rng.randint(0, 2)})
        elif kind == "bad_switch":
            ops.append({"op": "bad_switch", "what": rng.choice(["backend", "optimizer", "precision", "type"])})
    # compiled-objective reuse: the same model fitted under jax at two different precisions (the jit cache of
    # optimize/opt_jax.py holds traces keyed on the model object; a trace made at the other precision must not be reused)
    models = [i for i, v in live.items() if v == "model"]
    if "jax" in cfg["backends"] and len(cfg["precs"]) > 1 and models and rng.random() < 0.35:
        oid = rng.choice(models)
        p1, p2 = rng.sample(["64b", "32b"], 2)
        what = rng.choice(["fit", "fit", "fixed"])
        inf = {"op": "infer", "id": oid, "what": what, "grad": rng.choice([None, True, False]), "stitch": rng.random() < 0.3}
        ops.append({"op": "switch", "backend": "jax", "precision": p1, "optimizer": rng.choice(OPTS), "bform": "str", "oform": "str", "pform": "str"})
        ops.append(dict(inf))
        if rng.random() < 0.5:
            ob = rng.choice(cfg["backends"])
            ops.append({"op": "switch", "backend": ob, "precision": rng.choice(cfg["precs"]), "optimizer": rng.choice(OPTS), "bform": "str", "oform": "str", "pform": "str"})
        ops.append({"op": "switch", "backend": "jax", "precision": p2, "optimizer": ops[-2]["optimizer"] if ops[-1]["op"] == "infer" else rng.choice(OPTS),
                    "bform": "str", "oform": "str", "pform": "str"})
        ops.append(dict(inf))
        ops.append({"op": "eval", "id": oid, "pt": rng.randrange(1 << 30)})
    return {"cfg": cfg, "ops": ops}


def simplify(op):
    """Simpler variants of one op, tried by the minimiser."""
    if op["op"] == "switch":
        if op["backend"] != "numpy":
            yield dict(op, backend="numpy")
        if op["precision"] != "64b":
            yield dict(op, precision="64b")
        if op["optimizer"] != "scipy":
            yield dict(op, optimizer="scipy")
        if (op["bform"], op["oform"], op["pform"]) != ("str", "str", "str"):
            yield dict(op, bform="str", oform="str", pform="str")
    elif op["op"] == "create" and op["kind"] == "model":
        a = op["args"]
        if a["batch"] is not None:
            yield dict(op, args=dict(a, batch=None))
        if a["meas"] != 0:
            yield dict(op, args=dict(a, meas=0))
        if a.get("clip_sample") is not None or a.get("clip_bin") is not None or a.get("nopoi"):
            yield dict(op, args=dict(a, clip_sample=None, clip_bin=None, nopoi=False))
        n = 0
        for w in specs.shrink_workspace(a["ws"]):
            if a["meas"] < len(w["measurements"]):
                yield dict(op, args=dict(a, ws=w))
                n += 1
                if n >= 24:
                    break
    elif op["op"] == "evalmany" and len(op["evals"]) > 1:
        for i in range(len(op["evals"])):
            yield dict(op, evals=op["evals"][:i] + op["evals"][i + 1:])
    elif op["op"] == "storm" and op["n"] > 1:
        yield dict(op, n=1, keep=0)


# ---------------------------------------------------------------------------
# execution
# ---------------------------------------------------------------------------

class _UserSub:
    def __init__(self, counter, key):
        self.counter, self.key = counter, key

    def cb(self):
        self.counter[self.key] = self.counter.get(self.key, 0) + 1


class World:
    def __init__(self, scratch):
        import pyhf

        self.pyhf = pyhf
        self.scratch = scratch
        self.objs = {}
        self.calls = {}

    # -- restart ----------------------------------------------------------
    def begin(self, ctx, cfg):
        pyhf = self.pyhf
        self.ctx, self.cfg = ctx, cfg
        self.objs = {}
        self.calls = {}
        self.twins = {}
        self.epoch = 0
        gc.collect()
        gc.disable()
        # clear the bus: a fresh process has no subscribers
        ev = vars(pyhf.events).get("__events")
        if isinstance(ev, dict):
            for c in ev.values():
                if hasattr(c, "_callbacks"):
                    c._callbacks = []
        try:
            pyhf.set_backend("numpy", "scipy", precision="64b")
        except Exception as e:  # pragma: no cover
            raise core.HarnessError(f"cannot reset backend: {type(e).__name__}: {e}")
        self.reg = ("numpy", "64b", "scipy")
        self.dead_since_switch = 0

    def end(self):
        self.objs = {}
        self.twins = {}
        gc.enable()

    # -- helpers ------------------------------------------------------------
    def _eps(self):
        return core.EPS[self.reg[1]]

    def _build(self, kind, a):
        pyhf = self.pyhf
        a = copy.deepcopy(a)   # object and twin never share argument objects (nor with the recorded op)
        if kind == "model":
            ms = {"normsys": {"interpcode": a["normsys_code"]}, "histosys": {"interpcode": a["histosys_code"]}}
            kw = {}
            if a.get("clip_sample") is not None:
                kw["clip_sample_data"] = a["clip_sample"]
            if a.get("clip_bin") is not None:
                kw["clip_bin_data"] = a["clip_bin"]
            if a.get("nopoi"):
                kw["poi_name"] = None
            if a["how"] == "workspace":
                w = pyhf.Workspace(a["ws"])
                return w.model(measurement_name=a["ws"]["measurements"][a["meas"]]["name"],
                               batch_size=a["batch"], modifier_settings=ms, **kw)
            spec, poi = specs.model_spec(a["ws"], a["meas"])
            kw.setdefault("poi_name", poi)
            return pyhf.Model(spec, batch_size=a["batch"], modifier_settings=ms, **kw)
        if kind == "interp":
            return pyhf.interpolators.get(a["code"])(a["hist"])
        if kind == "tv":
            from pyhf.tensor.common import _TensorViewer

            return _TensorViewer([np.asarray(p) for p in a["indices"]], batch_size=a["batch"], names=a["names"])
        if kind == "pv":
            from pyhf.parameters import ParamViewer

            pm, start = {}, 0
            for n, s in zip(a["names"], a["sizes"]):
                pm[n] = {"slice": slice(start, start + s)}
                start += s
            shape = (start,) if a["batch"] is None else (a["batch"], start)
            return ParamViewer(shape, pm, a["sel"])
        raise core.HarnessError(f"unknown kind {kind}")

    def _twin(self, oid):
        key = (oid, self.epoch)
        if key not in self.twins:
            self.twins = {k: v for k, v in self.twins.items() if k[1] == self.epoch}
            o = self.objs[oid]
            self.twins[key] = self._build(o["kind"], o["args"])
            if self.dead_since_switch:
                self.ctx.probe("twin_created_with_dead_refs_pending")
        return self.twins[key]

    def _tonp(self, x):
        tl = self.pyhf.tensorlib
        if isinstance(x, (list, tuple)):
            return [self._tonp(v) for v in x]
        return np.asarray(tl.tolist(x), dtype=np.float64)

    def _observe(self, fn):
        try:
            return ("ok", fn())
        except Exception as e:
            return ("exc", type(e).__name__ + ": " + str(e)[:200])

    def _cmp(self, kind, name, old, twin, nulp=8, rel=None, scale=None):
        # scale: sum of the absolute values of the terms a cancelling sum (log-density) is made of; the 8-ulp
        # allowance is then taken relative to it (reduction order may differ between two tensors with different
        # memory alignment, e.g. in torch float32), never relative to the possibly tiny result
        self._scale = scale
        ctx = self.ctx
        sig = {"kind": kind, "observable": name}
        ctx.c.oracle_evals["twin_equal"] += 1
        if old[0] == "exc" or twin[0] == "exc":
            if old[0] == "exc" and twin[0] == "exc":
                if old[1].split(":")[0] == twin[1].split(":")[0]:
                    ctx.probe("both_raise")
                    return "both_raise:" + old[1].split(":")[0]
                ctx.fail("twin_equal", dict(sig, cls="raises_differently"), f"old {old[1]} / twin {twin[1]}")
                return "raise_diff"
            ctx.fail("twin_equal", dict(sig, cls="raises"),
                     f"{name}: old object -> {old[1] if old[0] == 'exc' else 'ok'}; fresh twin -> {twin[1] if twin[0] == 'exc' else 'ok'}; backend={self.reg}")
            return "raise_one"
        return self._cmp_val(sig, old[1], twin[1], nulp, rel)

    def _cmp_val(self, sig, o, t, nulp, rel):
        ctx, tl = self.ctx, self.pyhf.tensorlib
        if isinstance(t, (list, tuple)):
            if not isinstance(o, (list, tuple)) or len(o) != len(t):
                ctx.fail("twin_equal", dict(sig, cls="structure"), f"{type(o)} vs {type(t)}")
                return "structure"
            return "[" + ",".join(self._cmp_val(sig, a, b, nulp, rel) for a, b in zip(o, t)) + "]"
        if t is None or isinstance(t, (bool, int, str)):
            if o != t:
                ctx.fail("twin_equal", dict(sig, cls="value"), f"{o!r} vs {t!r}")
            return repr(t)
        if isinstance(t, tl.array_type):
            if not isinstance(o, tl.array_type):
                ctx.fail("twin_equal", dict(sig, cls="type"),
                         f"{sig['observable']}: old object returned {type(o).__module__}.{type(o).__name__}, twin {type(t).__name__}; backend={self.reg}")
                return "type"
            if str(o.dtype) != str(t.dtype):
                ctx.fail("twin_equal", dict(sig, cls="dtype"),
                         f"{sig['observable']}: old dtype {o.dtype}, twin {t.dtype}; backend={self.reg}")
                return "dtype"
        try:
            on, tn = self._tonp(o), self._tonp(t)
        except Exception as e:
            ctx.fail("twin_equal", dict(sig, cls="type"), f"cannot convert: {type(e).__name__}: {e}")
            return "conv"
        if rel is not None:
            ok = on.shape == tn.shape and bool(np.all(np.isclose(on, tn, rtol=rel, atol=rel, equal_nan=True)))
            why = f"{on!r} vs {tn!r}"
        else:
            atol = 1e-300
            if tn.size:
                finite = np.abs(tn[np.isfinite(tn)])
                atol += nulp * self._eps() * (float(finite.max()) if finite.size else 0.0)   # relative to the largest element of the array
            if getattr(self, "_scale", None):
                atol += nulp * self._eps() * self._scale
            ok, idx, why = core.ulp_close(on, tn, nulp, self._eps(), atol=atol)
        if not ok:
            ctx.fail("twin_equal", dict(sig, cls="value" if on.shape == tn.shape else "shape"),
                     f"{sig['observable']}: old vs fresh twin differ: {why}; backend={self.reg}")
            return "value"
        if on.size and not np.array_equal(on, tn, equal_nan=True):
            ctx.probe("not_bit_identical")
        return core.fhex(tn)

    # -- ops ----------------------------------------------------------------
    def run(self, op):
        return getattr(self, "op_" + op["op"])(op)

    def _state(self):
        ms = sorted((o["kind"], o["born"][0], o["born"][1], min(len(o["lived"]), 3)) for o in self.objs.values())
        self.ctx.state([self.reg, ms])

    def op_create(self, op):
        if op["id"] in self.objs:
            return "dup"
        kind, a = op["kind"], op["args"]
        pyhf = self.pyhf
        if kind.startswith("sub_"):
            key = op["id"]
            if kind == "sub_func":
                calls = self.calls

                def f():
                    calls[key] = calls.get(key, 0) + 1

                pyhf.events.subscribe("tensorlib_changed")(f)
                obj = f
            elif kind == "sub_lambda":
                calls = self.calls
                obj = lambda: calls.__setitem__(key, calls.get(key, 0) + 1)  # noqa: E731
                pyhf.events.subscribe("tensorlib_changed")(obj)
            else:
                obj = _UserSub(self.calls, key)
                pyhf.events.subscribe("tensorlib_changed")(obj.cb)
        else:
            try:
                obj = self._build(kind, a)
            except Exception as e:
                raise core.HarnessError(f"generator produced an unbuildable {kind}: {type(e).__name__}: {e}")
        self.objs[op["id"]] = {"kind": kind, "args": a, "obj": obj, "born": self.reg[:2], "lived": []}
        self._state()
        return kind

    def op_drop(self, op):
        o = self.objs.pop(op["id"], None)
        if o is None:
            return "noop"
        self.twins = {k: v for k, v in self.twins.items() if k[0] != op["id"]}
        self.ctx.fault("drop")
        self.ctx.fault("drop_" + o["kind"])
        self.dead_since_switch += 1
        kind = o["kind"]
        del o
        self._state()
        return kind

    def op_gc(self, op):
        n = gc.collect()
        self.ctx.fault("gc_now")
        return "gc"

    def op_storm(self, op):
        from pyhf.tensor.common import _TensorViewer

        keep = []
        for i in range(op["n"]):
            v = _TensorViewer([np.asarray([0, 2]), np.asarray([1])])
            if i < op["keep"]:
                keep.append(v)
        self._storm_keep = keep  # kept alive until the next storm
        self.ctx.fault("cb_storm")
        self.dead_since_switch += op["n"] - len(keep)
        return op["n"]

    def op_bad_switch(self, op):
        pyhf = self.pyhf
        self.ctx.fault("bad_switch")
        before = pyhf.get_backend()
        try:
            if op["what"] == "backend":
                pyhf.set_backend("fail")
            elif op["what"] == "optimizer":
                pyhf.set_backend(pyhf.tensorlib, custom_optimizer="fail")
            elif op["what"] == "precision":
                pyhf.set_backend(pyhf.tensorlib.name, pyhf.optimizer.name, precision="16b")
            else:
                pyhf.set_backend(self.reg[0], custom_optimizer=pyhf.optimizer.name, precision="8b")
            out = "accepted"
        except Exception as e:
            out = type(e).__name__
        # whatever happened, re-read the register from the public API
        tl, opt = pyhf.get_backend()
        self.reg = (tl.name, tl.precision, opt.name)
        self.epoch += 1
        return out

    def op_switch(self, op):
        pyhf = self.pyhf
        ctx = self.ctx
        name, prec, opt = op["backend"], op["precision"], op["optimizer"]
        bform, oform, pform = op.get("bform", "str"), op.get("oform", "str"), op.get("pform", "str")
        if bform == "instance":
            b = getattr(pyhf.tensor, f"{name}_backend")(precision=prec)
            p = None if pform == "default" else prec
        else:
            b = {"str": name, "bytes": name.encode(), "upper": name.upper()}[bform]
            p = prec if pform != "bytes" else prec.encode()
            if pform == "default":
                p = prec  # only an instance carries its own precision
        if oform == "none" and opt == "scipy":
            o = None
        elif oform == "instance":
            o = getattr(pyhf.optimize, f"{opt}_optimizer")()
        elif oform == "bytes":
            o = opt.encode()
        else:
            o = opt
        real = (name, prec) != self.reg[:2]
        if self.dead_since_switch:
            ctx.probe("sub_died_before_switch")
        calls_before = dict(self.calls)
        try:
            pyhf.set_backend(b, custom_optimizer=o, precision=p)
        except Exception as e:
            self.epoch += 1
            tl, op_ = pyhf.get_backend()
            self.reg = (tl.name, tl.precision, op_.name)
            ctx.fail("switch_ok", {"cls": "raises", "exc": type(e).__name__},
                     f"set_backend({name},{opt},{prec}) raised {type(e).__name__}: {e} "
                     f"(dead subscribers pending: {self.dead_since_switch})")
            self.dead_since_switch = 0
            return "raised"
        self.epoch += 1
        self.dead_since_switch = 0
        tl, op_ = pyhf.get_backend()
        got = (tl.name, tl.precision, op_.name)
        ctx.check(got == (name, prec, opt) and pyhf.tensorlib is tl and pyhf.optimizer is op_,
                  "register", {"cls": "register"},
                  lambda: f"after set_backend({name},{opt},{prec}): get_backend() says {got}, pyhf.tensorlib={pyhf.tensorlib.name}")
        self.reg = (name, prec, opt)
        if real:
            ctx.probe("switch_real_change")
            for o_ in self.objs.values():
                o_["lived"].append((name, prec))
            # probe (not judged): how often each live user subscriber fired
            for oid, o_ in self.objs.items():
                if o_["kind"].startswith("sub_"):
                    n = self.calls.get(oid, 0) - calls_before.get(oid, 0)
                    ctx.probe(f"live_sub_fired_{min(n, 2)}x")
        else:
            ctx.probe("switch_no_tensorlib_change")
        self._state()
        return f"{name}/{prec}/{opt}"

    # -- evaluation -----------------------------------------------------------
    def _model_point(self, model, a, pt):
        r = random.Random(pt)
        cfgm = model.config
        init, bounds = cfgm.suggested_init(), cfgm.suggested_bounds()
        scale = r.choice([0.1, 0.3, 0.6])
        nrow = a["batch"] or 1
        rows = []
        for _ in range(nrow):
            row = []
            for v, (lo, hi) in zip(init, bounds):
                x = v + r.uniform(-1, 1) * scale * min(3.0, (hi - lo) / 2)
                row.append(min(max(x, lo + 1e-3 * (hi - lo)), hi))
            rows.append(row)
        pars = np.asarray(rows if a["batch"] else rows[0], dtype=np.float64)
        obs = {o["name"]: o["data"] for o in a["ws"]["observations"]}
        main = [v for c in cfgm.channels for v in obs[c]]
        aux = [v * (1 + 0.05 * r.uniform(-1, 1)) for v in cfgm.auxdata]
        data = np.asarray(main + aux, dtype=np.float64)
        return pars, data

    def _prep(self, o, pt):
        """The observables of one object at one seeded point, as (name, function of the object) pairs.  Nothing is
        evaluated and nothing is built here."""
        kind, a, obj = o["kind"], o["args"], o["obj"]
        tl = self.pyhf.tensorlib
        prep = {"kind": kind, "obsv": [], "lp": None}
        if kind == "model":
            nmain = obj.config.nmaindata
            pars, data = self._model_point(obj, a, pt)
            if self.cfg.get("reuse_buffers"):
                # the caller keeps one parameter array and one data array per model and updates them in place
                pb, db = o.get("parbuf"), o.get("databuf")
                if pb is not None and pb.shape == pars.shape and db.shape == data.shape:
                    pb[...] = pars
                    db[...] = data
                    pars, data = pb, db
                    self.ctx.probe("input_buffers_reused")
                else:
                    o["parbuf"], o["databuf"] = pars, data
            dmain, daux = data[:nmain], data[nmain:]
            T = tl.astensor
            obsv = [
                ("expected_data", lambda m: m.expected_data(pars)),
                ("expected_actualdata", lambda m: m.expected_actualdata(pars)),
                ("logpdf", lambda m: m.logpdf(pars, data)),
                ("mainlogpdf", lambda m: m.mainlogpdf(T(dmain), T(pars))),
                ("by_sample", lambda m: m.main_model.expected_data(self.pyhf.tensorlib.astensor(pars), return_by_sample=True)),
                ("nominal_rates", lambda m: m.nominal_rates),
                ("sample_shape", lambda m: list(self.pyhf.tensorlib.shape(m.make_pdf(self.pyhf.tensorlib.astensor(pars)).sample((3,))))),
            ]
            if len(daux):
                obsv += [("expected_auxdata", lambda m: m.expected_auxdata(pars)),
                         ("constraint_logpdf", lambda m: m.constraint_logpdf(T(daux), T(pars)))]
            prep["obsv"] = obsv
            prep["lp"] = (pars, data)
        elif kind == "interp":
            r = random.Random(pt)
            ns = len(a["hist"])
            na = r.choice([1, 1, 2, 3, 5])
            al = np.asarray([[r.choice([0.0, 1.0, -1.0, r.uniform(-1, 1), r.uniform(-3, 3)]) for _ in range(na)]
                             for _ in range(ns)], dtype=np.float64)
            if self.cfg.get("reuse_buffers"):
                ab = o.get("alphabuf")
                if ab is not None and ab.shape == al.shape:
                    ab[...] = al
                    al = ab
                else:
                    o["alphabuf"] = al
            prep["obsv"] = [(f"call_code{a['code']}", lambda m: m(tl.astensor(al)))]
        elif kind == "tv":
            r = random.Random(pt)
            n = sum(len(p) for p in a["indices"])
            vec = np.asarray([round(r.uniform(-9, 9), 3) for _ in range(n)], dtype=np.float64)
            sel = [nm for nm in a["names"] if r.random() < 0.5] or a["names"][:1]
            prep["obsv"] = [("split", lambda m: m.split(tl.astensor(vec))),
                            ("split_sel", lambda m: m.split(tl.astensor(vec), selection=sel)),
                            ("stitch", lambda m: m.stitch(m.split(tl.astensor(vec))))]
        elif kind == "pv":
            r = random.Random(pt)
            n = sum(a["sizes"])
            shape = (n,) if a["batch"] is None else (a["batch"], n)
            vec = np.asarray([round(r.uniform(-9, 9), 3) for _ in range(int(np.prod(shape)))], dtype=np.float64).reshape(shape)
            prep["obsv"] = [("get", lambda m: m.get(tl.astensor(vec))),
                            ("index_selection", lambda m: m.index_selection),
                            ("indices_concatenated", lambda m: m.indices_concatenated)]
        return prep

    def _judge(self, oid, o, prep, old):
        """Compare what the old object returned with a twin built fresh under the current backend."""
        kind, a = o["kind"], o["args"]
        ctx, tl = self.ctx, self.pyhf.tensorlib
        try:
            twin = self._twin(oid)
        except core.HarnessError:
            raise
        except Exception as e:
            raise core.HarnessError(f"twin of {kind} cannot be built under {self.reg}: {type(e).__name__}: {e}")
        if o["lived"]:
            ctx.probe("eval_after_real_change")
            if any(p != o["born"][1] for _, p in o["lived"]):
                ctx.probe("eval_after_precision_change")
            if len(o["lived"]) >= 2:
                ctx.probe("eval_after_2plus_changes")
            ctx.mark_nontrivial([kind, o["born"], o["lived"][-5:], self.reg[2], "eval"])
        lp_scale = None
        if prep["lp"] is not None:
            # magnitude of the summands of the log-densities at this point (for the cancellation-aware tolerance)
            pars, data = prep["lp"]
            try:
                from scipy.special import gammaln

                lam = np.abs(np.asarray(tl.tolist(twin.expected_data(pars)), dtype=np.float64)).reshape(-1, len(data))
                dd = np.abs(data)[None, :]
                lp_scale = float(np.sum(dd * (1 + np.abs(np.log(np.maximum(lam, 1e-30)))) + lam + gammaln(dd + 1) + 10.0))
            except Exception:
                lp_scale = None
        out = []
        for (name, fn), ro in zip(prep["obsv"], old):
            out.append(self._cmp(kind, name, ro, self._observe(lambda: fn(twin)), scale=lp_scale if "logpdf" in name else None))
        return out

    def op_eval(self, op):
        o = self.objs.get(op["id"])
        if o is None or o["kind"].startswith("sub_"):
            return "noop"
        prep = self._prep(o, op["pt"])
        old = [self._observe(lambda: fn(o["obj"])) for _, fn in prep["obsv"]]
        return self._judge(op["id"], o, prep, old)

    def op_evalmany(self, op):
        """Several live objects are evaluated back to back BEFORE any twin is built: building a twin is itself an
        operation on process-global state (it subscribes callbacks, may touch caches shared between instances) and
        could repair - or disturb - exactly what is being judged."""
        pend = []
        for e in op["evals"]:
            o = self.objs.get(e["id"])
            if o is None or o["kind"].startswith("sub_"):
                continue
            prep = self._prep(o, e["pt"])
            pend.append((e["id"], o, prep, [self._observe(lambda: fn(o["obj"])) for _, fn in prep["obsv"]]))
        if len(pend) > 1:
            self.ctx.probe("evals_back_to_back")
        return [self._judge(oid, o, prep, old) for oid, o, prep, old in pend]

    def op_infer(self, op):
        o = self.objs.get(op["id"])
        if o is None or o["kind"] != "model" or o["args"]["batch"] is not None:
            return "noop"
        pyhf, ctx = self.pyhf, self.ctx
        a, obj = o["args"], o["obj"]
        twin = self._twin(op["id"])
        _, data = self._model_point(twin, a, 1)
        nmain = obj.config.nmaindata
        data = np.concatenate([data[:nmain], np.asarray(twin.config.auxdata, dtype=np.float64)])
        if o["lived"]:
            ctx.probe("infer_after_real_change")
            ctx.mark_nontrivial(["model", o["born"], o["lived"][-5:], self.reg[2], "infer", op["what"]])
        kw = {}
        if op.get("grad") is not None:
            kw["do_grad"] = op["grad"]
        if op.get("stitch"):
            kw["do_stitch"] = True
        what = op["what"]

        tl = pyhf.tensorlib
        init, bounds, fixed = twin.config.suggested_init(), twin.config.suggested_bounds(), twin.config.suggested_fixed()

        def run(m):
            if what == "fit":
                return list(pyhf.infer.mle.fit(data, m, return_fitted_val=True, **kw))
            if what == "fixed":
                return list(pyhf.infer.mle.fixed_poi_fit(1.0, data, m, return_fitted_val=True, **kw))
            if what == "twice_nll":
                return pyhf.infer.mle.twice_nll(tl.astensor(np.asarray(init, dtype=np.float64)), tl.astensor(data), m)
            if what == "teststat":
                ts = op["test_stat"]
                f = getattr(pyhf.infer.test_statistics, {"qtilde": "qmu_tilde", "q": "qmu", "q0": "q0", "tmu": "tmu", "tmu_tilde": "tmu_tilde"}[ts])
                mu = 0.0 if ts == "q0" else op["poi"]
                return f(mu, data, m, init, bounds, fixed)
            if what == "uncert":
                # only meaningful where the optimiser offers it (minuit); otherwise both must fail alike
                return pyhf.infer.mle.fit(data, m, return_uncertainties=True)
            if what == "hypotest_q":
                ts = op["test_stat"]
                return list(pyhf.infer.hypotest(0.0 if ts == "q0" else op["poi"], data, m, test_stat=ts, return_tail_probs=True))
            if what == "toys":
                # the simulator owns the random draws: same seed before the run on the old object and on the twin
                np.random.seed(op["seed"] % (2 ** 32))
                if self.reg[0] == "pytorch":
                    import torch

                    torch.manual_seed(op["seed"])
                elif self.reg[0] == "tensorflow":
                    import tensorflow as tf

                    tf.random.set_seed(op["seed"])
                return list(pyhf.infer.hypotest(1.0, data, m, calctype="toybased", ntoys=op["ntoys"], track_progress=False,
                                                return_tail_probs=True))
            if what == "limit":
                obs, exp = pyhf.infer.intervals.upper_limits.upper_limit(data, m, scan=np.linspace(0.0, 4.0, 5))
                return [obs, list(exp)]
            cls, exp = pyhf.infer.hypotest(1.0, data, m, return_expected_set=True)
            return [cls, list(exp)]

        import warnings

        with warnings.catch_warnings():
            warnings.simplefilter("ignore")
            ro = self._observe(lambda: run(obj))
            rt = self._observe(lambda: run(twin))
        rel = 1e-10 if self.reg[1] == "64b" else 1e-4
        ctx.probe(f"infer_{what}_{'ran' if rt[0] == 'ok' else 'twin_raises'}")
        return self._cmp("model", "infer_" + what, ro, rt, rel=rel)
