"""C17 - patch sets: lookup, verify, apply.  Fault enumeration on stored documents.

World: two "files" (a background-only workspace and a patch set whose metadata
records digests of it) that are re-serialised, corrupted leaf by leaf and
restored between the steps that load, look up, verify and apply.
"""
from __future__ import annotations

import copy
import json
import random

from sim import core
from sim.gen import patchsets as G
from sim.gen import specs
from sim.ref import jsonpatch_ref as jp

ID = "C17"
LEVEL = "fault_enumeration"
TIERS = {
    "quick": {"segments": 4000, "wall": 100, "min_budget": 60},
    "thorough": {"segments": 60000, "wall": 1500, "min_budget": 300},
}
SEGMENT_TIMEOUT = 300
SAMPLE_MAXOPS = 14
SAMPLE_TRUNCATE = True   # segments have hundreds of ops: evidence shows the head of the trace
RULE = (
    "segment = one generated (workspace, patch-set) document pair; every leaf of the workspace is corrupted once "
    "(exhaustive per document) plus key additions/removals, benign re-serialisations and one corruption per recorded "
    "digest, interleaved with load/lookup/verify/apply; non-trivial+distinct = distinct (document digest, fault kind, "
    "fault position) triples on which verify/apply was judged"
)
STATE_MEASURE = "abstract state per judged verify/apply = (document digest, fault kind, depth of the fault position, operation)"
ASSUMPTIONS = [
    "reference JSON-Patch applier sim/ref/jsonpatch_ref.py implements RFC 6902 for the six operations",
    "two JSON documents are 'the same workspace' iff their key-sorted canonical texts are equal",
    "schema admits only md5 and sha256 as recorded digests; other hashlib algorithms are exercised through utils.digest only",
    "documents reach pyhf as freshly parsed JSON (files), never as objects shared with the simulator",
]
COMPONENTS = {
    "real": ["pyhf.PatchSet / Patch / Workspace / utils.digest / schema validation", "jsonpatch", "jsonschema", "hashlib"],
    "stub": ["stored documents (in-memory JSON text)", "reference lookup dict", "reference RFC-6902 applier"],
}
EXPECTED_PROBES = ["verify_dirty_rejected", "verify_clean_ok", "apply_ok", "lookup_foreign_raises", "internal_word_name", "reserialise_then_verify"]


def _enc_key(k):
    if isinstance(k, tuple):
        return {"type": "tuple", "v": list(k)}
    if isinstance(k, list):
        return {"type": "list", "v": k}
    return {"type": "scalar", "v": k}


UNHASHABLE = ("dictkeys", "dictview", "set", "nparray", "bytearray")


def _dec_key(e):
    """Keys other than str/tuple/list that *iterate* like a value tuple are foreign keys too."""
    t, v = e["type"], e["v"]
    if t == "tuple":
        return tuple(v)
    if t == "gen":
        return (x for x in v)
    if t == "iter":
        return iter(v)
    if t == "dictkeys":
        return dict.fromkeys(v)
    if t == "dictview":
        return dict.fromkeys(v).keys()
    if t == "frozenset":
        return frozenset(v)
    if t == "set":
        return set(v)
    if t == "range":
        return range(v[0], v[0] + len(v))
    if t == "bytes":
        return bytes(v)
    if t == "bytearray":
        return bytearray(v)
    if t == "nparray":
        import numpy as np

        return np.asarray(v)
    return v


def gen(rng: random.Random, k: int, tier: str) -> dict:
    ws = specs.gen_workspace(rng, max_channels=2, max_samples=2, max_bins=3, n_meas=(1, 2),
                             name_prefix=rng.choice(["", "", "μ", "é_", "名"]))   # workspace names are free text
    dup = rng.choice([None, None, None, None, None, "name", "values", "verbatim", "both"])
    ps, dup = G.gen_patchset(rng, ws, dup=dup)
    # object mode: verify/apply are handed one long-lived in-memory object that is corrupted and restored
    # *in place* between calls (a user holding a workspace in a session), instead of a freshly parsed file
    cfg = {"dup": dup, "fault_rate": rng.choice([0.0, 0.15, 0.3]), "object_mode": rng.choice([None, None, "dict", "workspace"])}
    ops = [{"op": "publish", "ws": ws, "ps": ps}, {"op": "load"}]
    names = [p["metadata"]["name"] for p in ps["patches"]]
    tuples = [p["metadata"]["values"] for p in ps["patches"]]
    look = []
    for n, t in zip(names, tuples):
        look.append({"op": "lookup", "key": _enc_key(n)})
        look.append({"op": "lookup", "key": _enc_key(tuple(t))})
        look.append({"op": "lookup", "key": _enc_key(list(t))})
    foreign = [w for w in G.INTERNAL_WORDS + G.ORDINARY if w not in names]
    for w in rng.sample(foreign, min(len(foreign), 8)):
        look.append({"op": "lookup", "key": _enc_key(w)})
    for t in tuples:
        t2 = list(t)
        i = rng.randrange(len(t2))
        t2[i] = t2[i] + 1 if not isinstance(t2[i], str) else t2[i] + "x"
        if not any(G._eq_tuple(t2, u) for u in tuples):
            look.append({"op": "lookup", "key": _enc_key(tuple(t2))})
            look.append({"op": "lookup", "key": _enc_key(t2)})
        look.append({"op": "lookup", "key": _enc_key(tuple(t) + (0,))})
        if len(t) > 1:
            look.append({"op": "lookup", "key": _enc_key(tuple(t[:-1]))})
        look.append({"op": "lookup", "key": _enc_key(str(tuple(t)))})
        # other iterables whose elements are exactly the value tuple: still not 'the value tuple as list or tuple'
        kinds = ["gen", "iter", "dictkeys", "dictview", "nparray"]
        if len(set(map(str, t))) == len(t) and len(t) == 1:
            kinds += ["frozenset", "set"]
        if all(isinstance(x, int) and not isinstance(x, bool) for x in t):
            if all(b_ - a_ == 1 for a_, b_ in zip(t, t[1:])):
                kinds.append("range")
            if all(0 <= x < 256 for x in t):
                kinds += ["bytes", "bytearray"]
        for kd in rng.sample(kinds, min(len(kinds), 3)):
            if kd != "nparray" or not any(isinstance(x, str) for x in t):
                look.append({"op": "lookup", "key": {"type": kd, "v": list(t)}})
    for n in names:
        for cand in (n.upper(), n.lower(), n[:-1], n + "_", " " + n, repr(n)):
            if cand and cand not in names:
                look.append({"op": "lookup", "key": _enc_key(cand)})
    for t in tuples:
        for cand in (list(reversed(t)), sorted(t, key=str), [str(x) for x in t], t[:1] * len(t)):
            if not any(G._eq_tuple(list(cand), u) for u in tuples):
                look.append({"op": "lookup", "key": _enc_key(tuple(cand))})
    look += [{"op": "lookup", "key": _enc_key(v)} for v in (0, 1, -1, None, "", (), 0.0)]
    rng.shuffle(look)
    ops += look
    ops.append({"op": "iterlen"})
    ops.append({"op": "verify", "as": "dict"})
    ops.append({"op": "verify", "as": "workspace"})
    for n, t in zip(names, tuples):
        ops.append({"op": "apply", "key": _enc_key(rng.choice([n, tuple(t), list(t)])), "as": rng.choice(["dict", "workspace"]),
                    "scribble": rng.random() < 0.5})
    # the user edits a returned workspace in place, then applies the same patches again: every application starts
    # from the verified background and the recorded patch, whatever was done to earlier results
    for n, t in zip(names, tuples):
        if rng.random() < 0.6:
            ops.append({"op": "apply", "key": _enc_key(rng.choice([n, tuple(t), list(t)])), "as": rng.choice(["dict", "workspace"]),
                        "scribble": rng.random() < 0.5})
    # --- fault enumeration over the workspace document ---------------------
    blocks = []
    for path, v in G.leaves(ws):
        b = [{"op": "flip_leaf", "path": list(path), "variant": rng.randrange(4)}, {"op": "verify", "as": "dict"}]
        if rng.random() < 0.12:
            b.append({"op": "apply", "key": _enc_key(rng.choice(names)), "as": "dict"})
        if rng.random() < 0.1:
            b.insert(1, {"op": "reserialise", "seed": rng.randrange(1 << 30)})
        if rng.random() < 0.08:
            b.append({"op": "digest_cmp", "alg": rng.choice(["sha512", "sha1", "blake2b", "sha3_256", "md5", "sha256"])})
        if rng.random() > cfg["fault_rate"] * 0.3:  # mostly restore; sometimes let faults pile up
            b.append({"op": "restore"})
        blocks.append(b)
    objs = list(G.objects(ws))
    for path in rng.sample(objs, min(len(objs), 6)):
        blocks.append([{"op": "add_key", "path": list(path), "key": rng.choice(["extra", "name", "zz"]), "value": rng.choice([1, None, "", [], {}, False, 0])},
                       {"op": "verify", "as": "dict"}, {"op": "restore"}])
    lv = list(G.leaves(ws))
    for path, _ in rng.sample(lv, min(len(lv), 6)):
        blocks.append([{"op": "remove_key", "path": list(path)}, {"op": "verify", "as": "dict"}, {"op": "restore"}])
    for _ in range(3):
        blocks.append([{"op": "reserialise", "seed": rng.randrange(1 << 30)}, {"op": "verify", "as": rng.choice(["dict", "workspace"])},
                       {"op": "apply", "key": _enc_key(rng.choice(names)), "as": rng.choice(["dict", "workspace"])},
                       {"op": "digest_cmp", "alg": rng.choice(["sha512", "sha1", "blake2b", "sha256", "md5"])}])
    for alg in ps["metadata"]["digests"]:
        blocks.append([{"op": "restore"}, {"op": "flip_digest", "alg": alg, "pos": rng.randrange(32)}, {"op": "load"},
                       {"op": "verify", "as": "dict"}, {"op": "apply", "key": _enc_key(rng.choice(names)), "as": "dict"},
                       {"op": "restore_ps"}, {"op": "load"}, {"op": "verify", "as": "dict"}])
    rng.shuffle(blocks)
    for b in blocks:
        ops += b
    ops += [{"op": "restore"}, {"op": "verify", "as": "workspace"}]
    return {"cfg": cfg, "ops": ops}


def simplify(op):
    if op["op"] == "publish":
        for w in specs.shrink_workspace(op["ws"]):
            ps = copy.deepcopy(op["ps"])
            for p in ps["patches"]:
                p["patch"] = [{"op": "test", "path": "/version", "value": "1.0.0"}]
            for a in ps["metadata"]["digests"]:
                ps["metadata"]["digests"][a] = G.canon_digest(w, a)
            yield dict(op, ws=w, ps=ps)
            break
        if len(op["ps"]["patches"]) > 1:
            for i in range(len(op["ps"]["patches"])):
                ps = copy.deepcopy(op["ps"])
                del ps["patches"][i]
                yield dict(op, ps=ps)


def _scribble(node):
    """Edit every container reachable from a returned workspace in place."""
    if isinstance(node, dict):
        for k in list(node):
            v = node[k]
            if isinstance(v, (dict, list)):
                _scribble(v)
            elif isinstance(v, bool) or v is None:
                node[k] = 7
            elif isinstance(v, (int, float)):
                node[k] = v * 3 + 1
            elif isinstance(v, str):
                node[k] = v + "~"
        node["scribbled"] = [1]
    elif isinstance(node, list):
        for i, v in enumerate(node):
            if isinstance(v, (dict, list)):
                _scribble(v)
            elif isinstance(v, (int, float)) and not isinstance(v, bool):
                node[i] = v * 3 + 1
            elif isinstance(v, str):
                node[i] = v + "~"
        node.append(12345)


class World:
    def __init__(self, scratch):
        import pyhf

        self.pyhf = pyhf

    def begin(self, ctx, cfg):
        self.ctx, self.cfg = ctx, cfg
        self.pub_ws = self.pub_ps = None
        self.ws_text = self.ps_text = None
        self.ps = None
        self.ref = None
        self.loaded_digests = None
        self.docid = None
        self.fault = None
        self.obj = None

    def end(self):
        self.ps = None

    def run(self, op):
        return getattr(self, "op_" + op["op"])(op)

    # files -------------------------------------------------------------------
    def _ws(self):
        return json.loads(self.ws_text)

    def _inplace(self, tgt, src):
        """make container tgt equal to src (same key order) while keeping the identity of tgt and of
        nested containers wherever the shapes allow"""
        if isinstance(tgt, dict) and isinstance(src, dict):
            old = dict(tgt)
            tgt.clear()
            for k, v in src.items():
                if k in old and type(old[k]) is type(v) and isinstance(v, (dict, list)):
                    self._inplace(old[k], v)
                    tgt[k] = old[k]
                else:
                    tgt[k] = copy.deepcopy(v)
        elif isinstance(tgt, list) and isinstance(src, list):
            old = list(tgt)
            del tgt[:]
            for i, v in enumerate(src):
                if i < len(old) and type(old[i]) is type(v) and isinstance(v, (dict, list)):
                    self._inplace(old[i], v)
                    tgt.append(old[i])
                else:
                    tgt.append(copy.deepcopy(v))

    def _sync_obj(self):
        """object mode: bring the long-lived object to the content of the 'file', in place"""
        mode = self.cfg.get("object_mode")
        if not mode or self.ws_text is None:
            return
        doc = self._ws()
        if self.obj is None:
            try:
                self.obj = self.pyhf.Workspace(doc) if mode == "workspace" else doc
            except Exception:
                self.obj = doc
        else:
            self._inplace(self.obj, doc)
        if core.canon(dict(self.obj)) != core.canon(doc):
            raise core.HarnessError("object mode out of sync")

    def _arg(self, doc, as_):
        """what is handed to verify/apply"""
        if self.cfg.get("object_mode") and self.obj is not None:
            self.ctx.probe("object_mode_call")
            return self.obj
        if as_ == "workspace":
            try:
                return self.pyhf.Workspace(doc)
            except Exception:
                return doc
        return doc

    def _dirty(self):
        return core.canon(self._ws()) != core.canon(self.pub_ws)

    def op_publish(self, op):
        self.pub_ws, self.pub_ps = copy.deepcopy(op["ws"]), copy.deepcopy(op["ps"])
        self.ws_text = json.dumps(self.pub_ws)
        self.ps_text = json.dumps(self.pub_ps)
        self.docid = core.short(core.canon([self.pub_ws, self.pub_ps]), 12)
        self.ps = None
        self.fault = None
        self.obj = None
        self._sync_obj()
        return self.docid

    def op_restore(self, op):
        if self.pub_ws is None:
            return "noop"
        self.ws_text = json.dumps(self.pub_ws)
        self.fault = None
        self._sync_obj()
        return "ok"

    def op_restore_ps(self, op):
        if self.pub_ps is None:
            return "noop"
        self.ps_text = json.dumps(self.pub_ps)
        return "ok"

    def op_reserialise(self, op):
        if self.ws_text is None:
            return "noop"
        r = random.Random(op["seed"])
        doc = G.permute_keys(self._ws(), r)
        self.ws_text = json.dumps(doc, indent=r.choice([None, 1, 4]), separators=r.choice([None, (",", ":"), (" , ", " : ")]))
        self.ctx.fault("reserialise")
        self._after_reser = True
        self._sync_obj()
        return "ok"

    def _locate(self, doc, path):
        cur = doc
        for p in path[:-1]:
            cur = cur[p]
        return cur, path[-1]

    def op_flip_leaf(self, op):
        if self.ws_text is None:
            return "noop"
        doc = self._ws()
        try:
            if not op["path"]:
                return "noop"
            parent, last = self._locate(doc, op["path"])
            parent[last] = G.flip_value(parent[last], op.get("variant", 0))
        except (KeyError, IndexError, TypeError):
            return "noop"
        self.ws_text = json.dumps(doc)
        self.fault = ("flip_leaf", tuple(op["path"]))
        self.ctx.fault("flip_leaf")
        self._sync_obj()
        return "ok"

    def op_add_key(self, op):
        if self.ws_text is None:
            return "noop"
        doc = self._ws()
        try:
            cur = doc
            for p in op["path"]:
                cur = cur[p]
            if not isinstance(cur, dict) or op["key"] in cur:
                return "noop"
            cur[op["key"]] = op.get("value", 1)
        except (KeyError, IndexError, TypeError):
            return "noop"
        self.ws_text = json.dumps(doc)
        self.fault = ("add_key", tuple(op["path"]))
        self.ctx.fault("add_key")
        self._sync_obj()
        return "ok"

    def op_remove_key(self, op):
        if self.ws_text is None:
            return "noop"
        doc = self._ws()
        try:
            if not op["path"]:
                return "noop"
            parent, last = self._locate(doc, op["path"])
            del parent[last]
        except (KeyError, IndexError, TypeError):
            return "noop"
        self.ws_text = json.dumps(doc)
        self.fault = ("remove_key", tuple(op["path"]))
        self.ctx.fault("remove_key")
        self._sync_obj()
        return "ok"

    def op_flip_digest(self, op):
        if self.ps_text is None:
            return "noop"
        doc = json.loads(self.ps_text)
        d = doc["metadata"]["digests"]
        if op["alg"] not in d:
            return "noop"
        s = d[op["alg"]]
        i = op["pos"] % len(s)
        d[op["alg"]] = s[:i] + ("0" if s[i] != "0" else "1") + s[i + 1:]
        self.ps_text = json.dumps(doc)
        self.ctx.fault("flip_digest")
        return "ok"

    # patch set ---------------------------------------------------------------
    def op_load(self, op):
        if self.ps_text is None:
            return "noop"
        pyhf, ctx = self.pyhf, self.ctx
        doc = json.loads(self.ps_text)
        names = [p["metadata"]["name"] for p in doc["patches"]]
        tuples = [tuple(p["metadata"]["values"]) for p in doc["patches"]]
        dup = len(set(names)) != len(names) or len(set(tuples)) != len(tuples)
        if any(n in G.INTERNAL_WORDS for n in names):
            ctx.probe("internal_word_name")
        self.ps = None
        try:
            ps = pyhf.PatchSet(doc)
        except Exception as e:
            if dup:
                ctx.probe("load_dup_rejected_" + type(e).__name__)
                ctx.c.oracle_evals["load"] += 1
                return "rejected"
            words = sorted(set(names) & set(G.INTERNAL_WORDS))
            ctx.fail("load", {"cls": "valid_rejected", "internal_words": words},
                     f"PatchSet() raised {type(e).__name__}: {e} for a schema-valid document with distinct names {names} and distinct value tuples")
            return "rejected!"
        ctx.check(not dup, "load", {"cls": "dup_accepted"}, f"duplicate names/values accepted: {names} {tuples}")
        if dup:
            return "accepted!"
        self.ps = ps
        self.ref = {}
        for i, (n, t) in enumerate(zip(names, tuples)):
            self.ref[n] = i
            self.ref[t] = i
        self.ref_patches = json.loads(self.ps_text)["patches"]   # the reference never shares objects with what pyhf was given
        self.loaded_digests = dict(doc["metadata"]["digests"])
        return "loaded"

    def _same_patch(self, got, i):
        p = self.ref_patches[i]
        try:
            return (got.name == p["metadata"]["name"] and tuple(got.values) == tuple(p["metadata"]["values"])
                    and list(got.patch) == p["patch"] and got is self.ps.patches[i])
        except Exception:
            return False

    def op_lookup(self, op):
        if self.ps is None:
            return "noop"
        pyhf, ctx = self.pyhf, self.ctx
        key = _dec_key(op["key"])
        rk = tuple(key) if isinstance(key, list) else key
        plain = op["key"]["type"] in ("tuple", "list", "scalar")
        want = self.ref.get(rk) if plain and not isinstance(rk, (dict,)) else None
        ctx.c.oracle_evals["lookup"] += 1
        if not plain:
            ctx.probe("lookup_iterable_lookalike")
        try:
            got = self.ps[key]
        except TypeError as e:
            if op["key"]["type"] in UNHASHABLE and want is None:
                # an unhashable object cannot be a key of anything: Python's own TypeError is a refusal too
                ctx.probe("lookup_unhashable_refused")
                return "typeerror"
            ctx.fail("lookup", {"cls": "wrong_exception", "exc": "TypeError"}, f"key {key!r}: TypeError: {e}")
            return "exc"
        except pyhf.exceptions.InvalidPatchLookup:
            if want is None:
                ctx.probe("lookup_foreign_raises")
                return "raises"
            ctx.fail("lookup", {"cls": "own_key_raises", "ktype": op["key"]["type"]}, f"key {key!r} of patch #{want} raised InvalidPatchLookup")
            return "raises!"
        except Exception as e:
            ctx.fail("lookup", {"cls": "wrong_exception", "exc": type(e).__name__}, f"key {key!r}: {type(e).__name__}: {e}")
            return "exc"
        if want is None:
            ctx.fail("lookup", {"cls": "foreign_key_returned", "key": key if isinstance(key, str) else op["key"]["type"]},
                     f"foreign key {op['key']['type']}:{op['key']['v']!r} returned {got!r} instead of raising InvalidPatchLookup")
            return "returned!"
        ctx.check(self._same_patch(got, want), "lookup", {"cls": "wrong_patch"}, lambda: f"key {key!r} returned {got!r}, expected patch #{want}")
        ctx.probe("lookup_own_ok")
        return f"patch{want}"

    def op_iterlen(self, op):
        if self.ps is None:
            return "noop"
        ctx = self.ctx
        n = len(self.ref_patches)
        its = list(self.ps)
        ctx.check(len(self.ps) == n and len(its) == n and all(self._same_patch(g, i) for i, g in enumerate(its)),
                  "iterlen", {"cls": "iterlen"}, f"len={len(self.ps)} iter={its} expected {n} patches in document order")
        return n

    def _expect_verified(self, doc):
        return all(G.canon_digest(doc, a) == d for a, d in self.loaded_digests.items())

    def _mark(self, what):
        f = self.fault or ("clean", ())
        self.ctx.mark_nontrivial([self.docid, f[0], list(f[1]), what])
        self.ctx.state([self.docid, f[0], len(f[1]), what])

    def op_verify(self, op):
        if self.ps is None or self.ws_text is None:
            return "noop"
        pyhf, ctx = self.pyhf, self.ctx
        doc = self._ws()
        snap = copy.deepcopy(doc)
        want_ok = self._expect_verified(doc)
        arg = self._arg(doc, op["as"])
        snap = copy.deepcopy(dict(arg))
        doc = arg
        try:
            self.ps.verify(arg)
            ok, exc = True, None
        except Exception as e:
            ok, exc = False, e
        self._mark("verify")
        sig = {"cls": "verify", "fault": (self.fault or ("clean",))[0]}
        if want_ok:
            ctx.check(ok, "verify", dict(sig, got="raised"), lambda: f"verify raised {type(exc).__name__}: {exc} although every recorded digest matches (fault={self.fault})")
            ctx.probe("verify_clean_ok")
            if getattr(self, "_after_reser", False):
                ctx.probe("reserialise_then_verify")
                self._after_reser = False
        else:
            ctx.check(not ok, "verify", dict(sig, got="passed"),
                      lambda: f"verify passed although the workspace/digests differ (fault={self.fault}, digests={self.loaded_digests})")
            if not ok:
                ctx.probe("verify_dirty_rejected")
                ctx.probe("verify_exc_" + type(exc).__name__)
        ctx.check(dict(doc) == snap and list(doc) == list(snap), "nonmutation", {"cls": "verify_mutates"}, "verify modified its input")
        return "ok" if ok else "rejected"

    def op_apply(self, op):
        if self.ps is None or self.ws_text is None:
            return "noop"
        pyhf, ctx = self.pyhf, self.ctx
        key = _dec_key(op["key"])
        rk = tuple(key) if isinstance(key, list) else key
        want = self.ref.get(rk)
        if want is None:
            return "noop"
        doc = self._ws()
        want_ok = self._expect_verified(doc)
        arg = self._arg(doc, op["as"] if want_ok else "dict")
        snap = json.dumps(arg)  # order-preserving snapshot
        expected, exp_err = None, None
        if want_ok:
            try:
                expected = jp.apply_patch(doc, self.ref_patches[want]["patch"])
                try:
                    pyhf.schema.validate(expected, "workspace.json", version="1.0.0")
                except Exception as e:
                    expected, exp_err = None, e
            except jp.PatchError as e:
                exp_err = e
        try:
            got = self.ps.apply(arg, key)
            exc = None
        except Exception as e:
            got, exc = None, e
        self._mark("apply")
        sig = {"cls": "apply", "fault": (self.fault or ("clean",))[0]}
        if not want_ok:
            ctx.check(exc is not None, "apply", dict(sig, got="applied_unverified"),
                      lambda: f"apply returned {type(got).__name__} on a workspace that does not verify (fault={self.fault})")
            ctx.probe("apply_dirty_rejected")
        elif expected is None:
            ctx.check(exc is not None, "apply", dict(sig, got="applied_invalid"), lambda: f"reference application fails ({exp_err}) but apply returned")
            ctx.probe("apply_ref_fails")
        else:
            ctx.check(exc is None, "apply", dict(sig, got="raised"), lambda: f"apply raised {type(exc).__name__}: {exc} on a verified workspace")
            if exc is None:
                ctx.check(isinstance(got, pyhf.Workspace), "apply", dict(sig, got="type"), lambda: f"apply returned {type(got)}")
                ctx.check(core.canon(dict(got)) == core.canon(expected), "apply", dict(sig, got="wrong_result"),
                          lambda: "apply result differs from reference application of the RFC-6902 list")
                ctx.probe("apply_ok")
                if op.get("scribble") and isinstance(got, dict):
                    # what a user may do with a workspace they were handed: edit it in place, everywhere
                    _scribble(got)
                    ctx.fault("scribble_result")
        ctx.check(json.dumps(arg) == snap, "nonmutation", {"cls": "apply_mutates"}, "apply modified the workspace it was given")
        return "applied" if exc is None else "rejected"

    def op_digest_cmp(self, op):
        if self.ws_text is None:
            return "noop"
        pyhf, ctx = self.pyhf, self.ctx
        a = pyhf.utils.digest(self._ws(), algorithm=op["alg"])
        b = pyhf.utils.digest(copy.deepcopy(self.pub_ws), algorithm=op["alg"])
        dirty = self._dirty()
        ctx.check((a != b) == dirty, "digest", {"cls": "digest", "dirty": dirty},
                  f"digest[{op['alg']}] equal={a == b} but documents differ={dirty} (fault={self.fault})")
        ctx.probe("digest_cmp_dirty" if dirty else "digest_cmp_clean")
        return a[:8]
