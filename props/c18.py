"""C18 - export to HistFactory XML+ROOT and re-import preserves the model.

World: a scratch disk with up to four export directories, the process-wide
ROOT file cache of pyhf.readxml, the module-level handle of pyhf.writexml, the
current working directory, and process restarts.  Reference: a disk model
{absent, complete(ws), torn} per directory.
"""
from __future__ import annotations

import copy
import json
import os
import random
import shutil

import numpy as np

from sim import core, faults
from sim.gen import specs

ID = "C18"
LEVEL = "exploration"
TIERS = {
    "quick": {"segments": 2000, "wall": 120, "min_budget": 90},
    "thorough": {"segments": 40000, "wall": 1500, "min_budget": 600},
}
SEGMENT_TIMEOUT = 600
SAMPLE_MAXOPS = 9
RULE = (
    "segment = seeded session of defws/export/import/chdir/move/rmtree/clear_cache/restart ops with write faults "
    "(crash or OSError at the n-th file operation), torn and missing files; non-trivial = an import judged against "
    "the original from a directory that was exported to more than once, or after a chdir/move, or after a faulted "
    "export into it, or while another directory's files are cached; distinct = different (abstract disk state, cache "
    "state, export/import route, path style) tuples at such imports"
)
STATE_MEASURE = "abstract state per export/import = (operation, disk-model state or history tags of the directory, route, path style, set of directories whose ROOT file is in the cache)"
ASSUMPTIONS = [
    "uproot is the ROOT codec (ROOT itself is absent)",
    "a relative export is re-imported with rootdir/basedir = the working directory at export time (or with a mount after a move), as the XML stores the paths it was given",
    "likelihood equality is sampled at 5 seeded parameter points x 3 datasets per import, parameters matched by name (staterror -> staterror_<channel> is the only renaming), 1e-9 relative",
    "initial values and bounds are not compared (statement does not list them)",
    "torn directories carry no oracle on import; the next clean export+import must be right",
]
COMPONENTS = {
    "real": ["pyhf.writexml", "pyhf.readxml (incl. __FILECACHE__)", "pyhf json2xml/xml2json via click CliRunner", "uproot", "real files in a scratch directory", "os.chdir"],
    "stub": ["fault layer over open/copyfile/uproot.recreate/makedirs as seen from pyhf modules", "process restart (canonical reset)", "disk reference model"],
}
EXPECTED_PROBES = ["import_after_reexport_same_dir", "import_after_chdir", "import_with_other_dir_cached", "import_after_faulted_export", "lumi_not_one", "export_fault_fired"]

NDIR = 4


def _exportable_ws(rng, tag):
    ws = specs.gen_workspace(rng, max_channels=2, max_samples=2, max_bins=3, exportable=True, n_meas=(1, 3),
                             mods=rng.sample(specs.ALL_MODS, rng.randint(3, 7)),
                             name_prefix=rng.choice(["", "", "", "μ_", "a_", "pl", "h_", "_", "Gamma_"]))   # names are free text
    # negative yields are legal input (interference templates, subtracted fakes) as long as the channel total stays positive
    if rng.random() < 0.2:
        c = rng.choice(ws["channels"])
        if len(c["samples"]) > 1:
            s_ = rng.choice([x for x in c["samples"] if x["name"] != "signal"] or c["samples"][1:])
            b = rng.randrange(len(s_["data"]))
            others = sum(x["data"][b] for x in c["samples"] if x is not s_)
            if others > 3:
                f = -round(rng.uniform(0.1, 0.5) * others, 3) / s_["data"][b]
                s_["data"][b] = round(s_["data"][b] * f, 3)
                for m in s_["modifiers"]:
                    if m["type"] == "histosys":
                        m["data"]["hi_data"][b] = round(m["data"]["hi_data"][b] * f, 3)
                        m["data"]["lo_data"][b] = round(m["data"]["lo_data"][b] * f, 3)
    # staterror may carry any name in JSON (the format renames it)
    if rng.random() < 0.4:
        for c in ws["channels"]:
            for s in c["samples"]:
                for m in s["modifiers"]:
                    if m["type"] == "staterror":
                        m["name"] = f"stat_{tag}_{c['name']}"
    # constant flags on other kinds of parameters
    used = {}
    for c in ws["channels"]:
        for s in c["samples"]:
            for m in s["modifiers"]:
                used.setdefault(m["name"], set()).add(m["type"])
    for meas in ws["measurements"]:
        plist = meas["config"]["parameters"]
        for n in sorted(used):
            if n == meas["config"]["poi"] or n == "lumi":
                continue
            t = used[n]
            if t <= {"histosys", "normsys"} and rng.random() < 0.15 and not any(p["name"] == n for p in plist):
                plist.append({"name": n, "fixed": True})
            # (an unconstrained parameter whose own name starts with alpha_/gamma_ cannot be marked constant in the
            # XML format: constants are listed by ROOT-style name, where those prefixes mean something else)
            if t == {"normfactor"} and rng.random() < 0.2 and not n.startswith(("alpha_", "gamma_")):
                p = next((p for p in plist if p["name"] == n), None)
                if p is not None:
                    p["fixed"] = True
                else:
                    # format stores Val/Low/High once: keep defaults so every measurement agrees
                    plist.append({"name": n, "fixed": True})
    return ws


def gen(rng: random.Random, k: int, tier: str) -> dict:
    deep = tier == "thorough" and k % 3 == 2   # thorough: every third segment is a three times longer history
    cfg = {"fault_rate": rng.choice([0.0, 0.0, 0.15, 0.3]), "len": rng.randint(5, 22) * (3 if deep else 1),
           "restart_w": rng.choice([0.0, 0.3, 1.0]), "cli_w": rng.choice([0.0, 0.3, 0.6])}
    ops = []
    nws = rng.randint(1, 3)
    first = None
    for i in range(nws):
        if first is not None and rng.random() < 0.5:
            # same structure and histogram names, different numbers: the ROOT file keeps its size and
            # key list, only its content (and mtime) changes - the hardest case for any cache validation
            ws = copy.deepcopy(first)
            f = rng.choice([0.5, 1.25, 2.0])
            for c in ws["channels"]:
                for s_ in c["samples"]:
                    s_["data"] = [round(v * f, 3) for v in s_["data"]]
                    for m in s_["modifiers"]:
                        if m["type"] == "histosys":
                            m["data"] = {k: [round(v * f, 3) for v in vals] for k, vals in m["data"].items()}
                        elif m["type"] in ("shapesys", "staterror"):
                            m["data"] = [round(v * f, 3) for v in m["data"]]
            for o in ws["observations"]:
                o["data"] = [float(round(v * f)) for v in o["data"]]
        else:
            ws = _exportable_ws(rng, f"w{i}")
        first = first or ws
        ops.append({"op": "defws", "id": i, "ws": ws})
    disk = {}  # dir -> state
    cwd = "root"
    for _ in range(cfg["len"]):
        complete = [d for d, s in disk.items() if s == "complete"]
        w = {"export": 4.0, "import": 5.0 if complete else (1.0 if disk else 0.0), "editws": 0.8 if disk else 0.0, "chdir": 1.2, "move": 0.5 if disk else 0.0,
             "rmtree": 0.4 if disk else 0.0, "clear_cache": 0.3, "restart": cfg["restart_w"],
             "torn_file": 1.5 * cfg["fault_rate"] if disk else 0.0, "missing_file": 1.0 * cfg["fault_rate"] if disk else 0.0}
        kinds = list(w)
        kind = rng.choices(kinds, weights=[w[x] for x in kinds])[0]
        if kind == "editws":
            wi = rng.randrange(nws)
            ops.append({"op": "editws", "ws": wi, "what": rng.choice(["obs_replace", "obs_replace", "obs_elementwise", "yields", "both"]), "seed": rng.randrange(1 << 30)})
            # ... and exports the same object again straight away, more often than not
            if rng.random() < 0.7:
                d = rng.choice(sorted(disk)) if rng.random() < 0.5 else rng.randrange(NDIR)
                ops.append({"op": "export", "ws": wi, "dir": d, "how": "lib", "pathstyle": rng.choice(["abs", "rel"]), "prefix": rng.choice(["FitConfig", "cfg"]),
                            "specroot": rng.choice(["config", "xml"]), "dataroot": rng.choice(["data", "hists"])})
                disk[d] = "complete"
                complete = sorted(x for x in disk if disk[x] == "complete")
            continue
        if kind == "export":
            # bias towards re-using a directory (that is where caches and leftovers bite)
            d = rng.choice(sorted(disk)) if disk and rng.random() < 0.6 else rng.randrange(NDIR)
            op = {"op": "export", "ws": rng.randrange(nws), "dir": d,
                  "how": "cli" if rng.random() < cfg["cli_w"] else "lib",
                  "pathstyle": rng.choice(["abs", "abs", "rel"]),
                  "prefix": rng.choice(["FitConfig", "FitConfig", "cfg2"]),
                  "specroot": rng.choice(["config", "config", "xml"]), "dataroot": rng.choice(["data", "data", "hists"])}
            if rng.random() < cfg["fault_rate"]:
                op["fault"] = {"kind": rng.choice(["crash", "io_error"]), "at": rng.randint(1, 30),
                               "err": rng.choice(["ENOSPC", "EIO", "EACCES"])}
                disk[d] = "torn?"
            else:
                disk[d] = "complete"
            ops.append(op)
        elif kind == "import":
            d = rng.choice(complete) if complete and rng.random() < 0.9 else rng.choice(sorted(disk))
            ops.append({"op": "import", "dir": d, "scribble": rng.random() < 0.5, "how": rng.choice(["lib_abs", "lib_rel", "lib_rel", "cli", "lib_str"]) if rng.random() > cfg["cli_w"] * 0.5 else "cli",
                        "pt": rng.randrange(1 << 30)})
        elif kind == "chdir":
            cwd = rng.choice(["root", "sub", "sub2"] + [f"d{d}" for d in disk])
            ops.append({"op": "chdir", "to": cwd})
        elif kind == "move":
            d = rng.choice(sorted(disk))
            free = [x for x in range(NDIR + 2) if x not in disk]
            if free:
                nd = rng.choice(free)
                disk[nd] = disk.pop(d)
                ops.append({"op": "move", "dir": d, "to": nd})
        elif kind == "rmtree":
            d = rng.choice(sorted(disk))
            del disk[d]
            ops.append({"op": "rmtree", "dir": d})
        elif kind == "clear_cache":
            ops.append({"op": "clear_cache"})
        elif kind == "restart":
            cwd = "root"
            ops.append({"op": "restart"})
        elif kind == "torn_file":
            d = rng.choice(sorted(disk))
            disk[d] = "torn?"
            ops.append({"op": "torn_file", "dir": d, "which": rng.choice(["top", "channel", "root"]), "frac": round(rng.uniform(0.05, 0.9), 2)})
        elif kind == "missing_file":
            d = rng.choice(sorted(disk))
            disk[d] = "torn?"
            ops.append({"op": "missing_file", "dir": d, "which": rng.choice(["top", "channel", "root", "dtd"])})
    return {"cfg": cfg, "ops": ops}


def simplify(op):
    if op["op"] == "defws":
        n = 0
        for w in specs.shrink_workspace(op["ws"]):
            yield dict(op, ws=w)
            n += 1
            if n >= 20:
                break
    elif op["op"] == "export":
        if op.get("how") != "lib":
            yield dict(op, how="lib")
        if op.get("pathstyle") != "abs":
            yield dict(op, pathstyle="abs")
        if (op.get("prefix"), op.get("specroot"), op.get("dataroot")) != ("FitConfig", "config", "data"):
            yield dict(op, prefix="FitConfig", specroot="config", dataroot="data")
    elif op["op"] == "import":
        if op.get("how") != "lib_abs":
            yield dict(op, how="lib_abs")


def dedupe_key(sig):
    return [sig.get("cls"), sig.get("what"), sig.get("exc")]


def _scribble(node):
    """Edit every container of an imported workspace in place."""
    if isinstance(node, dict):
        for k in list(node):
            v = node[k]
            if isinstance(v, (dict, list)):
                _scribble(v)
            elif isinstance(v, bool) or v is None:
                continue
            elif isinstance(v, (int, float)):
                node[k] = v * 10 + 1
        node["scribbled"] = True
    elif isinstance(node, list):
        for i, v in enumerate(node):
            if isinstance(v, (dict, list)):
                _scribble(v)
            elif isinstance(v, (int, float)) and not isinstance(v, bool):
                node[i] = v * 10 + 1
        if node and isinstance(node[0], (int, float)):
            node.append(-1.0)


class World:
    def __init__(self, scratch):
        import pyhf
        import pyhf.readxml
        import pyhf.writexml
        from click.testing import CliRunner
        from pyhf.cli import cli as pyhf_cli

        self.pyhf = pyhf
        self.cli = pyhf_cli
        self.runner = CliRunner()
        self.base = scratch
        self.nseg = 0
        self.faults = faults.IOFaults()
        faults.install(self.faults)
        import logging

        logging.getLogger("pyhf").setLevel(logging.CRITICAL)

    # -- process/disk -----------------------------------------------------
    def _restart(self):
        pyhf = self.pyhf
        pyhf.readxml.clear_filecache()
        pyhf.writexml._ROOT_DATA_FILE = None
        pyhf.set_backend("numpy")
        os.chdir(self.root)

    def begin(self, ctx, cfg):
        self.ctx, self.cfg = ctx, cfg
        self.nseg += 1
        self.root = os.path.join(self.base, f"seg{self.nseg}")
        os.makedirs(os.path.join(self.root, "sub"), exist_ok=True)
        os.makedirs(os.path.join(self.root, "sub2"), exist_ok=True)
        self.ws = {}
        self.disk = {}      # dir -> {"state","ws","cwd","prefix","pathstyle","origin","nexports","faulted"}
        self.cached_dirs = set()
        self.chdir_since = {}
        self._restart()

    def end(self):
        os.chdir(self.base)
        self.pyhf.readxml.clear_filecache()
        shutil.rmtree(self.root, ignore_errors=True)

    def run(self, op):
        return getattr(self, "op_" + op["op"])(op)

    def _dpath(self, d):
        return os.path.join(self.root, f"d{d}")

    def op_defws(self, op):
        self.ws[op["id"]] = copy.deepcopy(op["ws"])
        return core.short(core.canon(op["ws"]), 10)

    def op_editws(self, op):
        """The user edits a workspace they hold, in place (new observed counts, rescaled yields), between two
        exports of the same object.  Exports made earlier keep their meaning; later ones must write the edited content."""
        ws = self.ws.get(op["ws"])
        if ws is None:
            return "noop"
        r = random.Random(op["seed"])
        what = op["what"]
        if what in ("obs_replace", "both"):
            for o in ws["observations"]:
                o["data"] = [float(r.randint(0, 150)) for _ in o["data"]]          # a new list object
        if what in ("obs_elementwise",):
            for o in ws["observations"]:
                for i in range(len(o["data"])):
                    o["data"][i] = float(r.randint(0, 150))
        if what in ("yields", "both"):
            for c in ws["channels"]:
                for smp in c["samples"]:
                    f = r.choice([0.5, 1.5, 2.0])
                    if all(m["type"] not in ("shapesys", "staterror", "histosys") for m in smp["modifiers"]):
                        smp["data"] = [round(v * f, 3) for v in smp["data"]]
        self.ctx.fault("edit_workspace_in_place")
        return what

    def op_restart(self, op):
        self._restart()
        self.cached_dirs = set()
        self.ctx.fault("restart")
        return "ok"

    def op_clear_cache(self, op):
        self.pyhf.readxml.clear_filecache()
        self.cached_dirs = set()
        return "ok"

    def op_chdir(self, op):
        tgt = self.root if op["to"] == "root" else os.path.join(self.root, op["to"])
        if not os.path.isdir(tgt):
            return "noop"
        os.chdir(tgt)
        for d in self.disk.values():
            d["chdir_since"] = True
        return op["to"]

    def _orphan(self, gone, keep=None):
        # exports whose working directory at export time disappears: absolute ones do not care,
        # relative ones can no longer be resolved by a basedir (no oracle on them from here on)
        for d, st in self.disk.items():
            if d == keep:
                continue
            if st["cwd"] == gone or st["cwd"].startswith(gone + os.sep):
                if st["pathstyle"] == "abs":
                    st["cwd"] = self.root
                else:
                    st["state"] = "torn"

    def op_rmtree(self, op):
        p = self._dpath(op["dir"])
        if op["dir"] not in self.disk:
            return "noop"
        self._orphan(p, keep=op["dir"])
        if os.getcwd().startswith(p):
            os.chdir(self.root)
        shutil.rmtree(p, ignore_errors=True)
        del self.disk[op["dir"]]
        return "ok"

    def op_move(self, op):
        if op["dir"] not in self.disk or op["to"] in self.disk or os.path.exists(self._dpath(op["to"])):
            return "noop"
        if os.getcwd().startswith(self._dpath(op["dir"])):
            os.chdir(self.root)
        os.rename(self._dpath(op["dir"]), self._dpath(op["to"]))
        self._orphan(self._dpath(op["dir"]), keep=op["dir"])
        st = self.disk.pop(op["dir"])
        old_p, new_p = self._dpath(op["dir"]), self._dpath(op["to"])
        if st["cwd"] == old_p or st["cwd"].startswith(old_p + os.sep):
            st["cwd"] = new_p + st["cwd"][len(old_p):]  # the user points basedir at the new location
        st["moved"] = True
        st["loc"] = op["to"]
        self.disk[op["to"]] = st
        return "ok"

    def _files(self, d):
        st = self.disk[d]
        p = self._dpath(d)
        top = os.path.join(p, f"{st['prefix']}.xml")
        chans = sorted(f for f in os.listdir(os.path.join(p, st["specroot"])) if f.startswith(st["prefix"] + "_")) \
            if os.path.isdir(os.path.join(p, st["specroot"])) else []
        return {"top": top, "channel": os.path.join(p, st["specroot"], chans[0]) if chans else None,
                "root": os.path.join(p, st["dataroot"], "data.root"), "dtd": os.path.join(p, "HistFactorySchema.dtd")}

    def op_torn_file(self, op):
        if op["dir"] not in self.disk:
            return "noop"
        f = self._files(op["dir"]).get(op["which"])
        if not f or not os.path.isfile(f):
            return "noop"
        size = os.path.getsize(f)
        with open(f, "r+b") as fh:
            fh.truncate(int(size * op["frac"]))
        self.disk[op["dir"]]["state"] = "torn"
        self.ctx.fault("torn_file")
        return op["which"]

    def op_missing_file(self, op):
        if op["dir"] not in self.disk:
            return "noop"
        f = self._files(op["dir"]).get(op["which"])
        if not f or not os.path.isfile(f):
            return "noop"
        os.unlink(f)
        if op["which"] != "dtd":  # the DTD is not read by the importer
            self.disk[op["dir"]]["state"] = "torn"
        self.ctx.fault("missing_file")
        return op["which"]

    # -- export ---------------------------------------------------------------
    def op_export(self, op):
        if op["ws"] not in self.ws:
            return "noop"
        pyhf, ctx = self.pyhf, self.ctx
        ws = self.ws[op["ws"]]
        snap = core.canon(ws)
        d = op["dir"]
        dabs = self._dpath(d)
        os.makedirs(dabs, exist_ok=True)
        cwd = os.getcwd()
        outdir = dabs if op["pathstyle"] == "abs" else os.path.relpath(dabs, cwd)
        prev = self.disk.get(d)
        st = {"state": "torn", "ws": op["ws"], "snap": copy.deepcopy(ws), "cwd": cwd, "prefix": op["prefix"], "specroot": op["specroot"],
              "dataroot": op["dataroot"], "pathstyle": op["pathstyle"], "origin": dabs, "outdir_as_given": outdir, "export_cwd": cwd,
              "nexports": (prev["nexports"] + 1) if prev else 1, "faulted": bool(prev and prev.get("faulted")),
              "chdir_since": False, "moved": False, "loc": d}
        self.disk[d] = st
        fault = op.get("fault")
        self.faults.reset_count()
        if fault:
            self.faults.arm(fault["kind"], fault["at"], fault.get("err", "EIO"))
        outcome = None
        try:
            if op["how"] == "lib":
                from pathlib import Path

                os.makedirs(os.path.join(outdir, op["specroot"]), exist_ok=True)
                os.makedirs(os.path.join(outdir, op["dataroot"]), exist_ok=True)
                xml = pyhf.writexml.writexml(copy.deepcopy(ws) if False else ws, Path(outdir).joinpath(op["specroot"]),
                                             Path(outdir).joinpath(op["dataroot"]), op["prefix"])
                self.faults.tick("open:top")
                with open(os.path.join(outdir, f"{op['prefix']}.xml"), "wb") as f:
                    self.faults.tick("write:top")
                    f.write(xml)
                outcome = "ok"
            else:
                wsfile = os.path.join(self.root, f"ws{op['ws']}.json")
                with open(wsfile, "w") as f:
                    json.dump(ws, f)
                r = self.runner.invoke(self.cli, ["json2xml", wsfile, "--output-dir", outdir, "--specroot", op["specroot"],
                                                  "--dataroot", op["dataroot"], "--resultprefix", op["prefix"]], catch_exceptions=True)
                if isinstance(r.exception, core.SimCrash):
                    raise r.exception
                outcome = "ok" if r.exit_code == 0 else f"exit{r.exit_code}:{type(r.exception).__name__}"
        except core.SimCrash:
            outcome = "crash"
        except Exception as e:
            outcome = f"raised:{type(e).__name__}"
        nticks, fired = self.faults.disarm()
        ctx.check(core.canon(ws) == snap, "nonmutation", {"cls": "export_mutates_input"}, "export modified the workspace it was given")
        if fault and fired:
            ctx.fault("export_" + fault["kind"])
            ctx.probe("export_fault_fired")
            st["faulted"] = True
            if outcome == "ok":
                # an I/O error was swallowed: the export claims success, so it must be complete (judged at import)
                ctx.probe("export_ok_despite_io_error")
                st["state"] = "complete"
            else:
                st["state"] = "torn"
        elif outcome == "ok":
            st["state"] = "complete"
        else:
            ctx.fail("export_ok", {"cls": "export_fails", "how": op["how"], "what": outcome.split(":")[-1]},
                     f"fault-free export of an exportable workspace failed: {outcome} (dir d{d}, style {op['pathstyle']}, prefix {op['prefix']})")
            st["state"] = "torn"
        ctx.state(["export", st["state"], st["nexports"] > 1, op["how"], op["pathstyle"], sorted(self.cached_dirs)])
        return f"{outcome}/{nticks}"

    # -- import -------------------------------------------------------------------
    def op_import(self, op):
        d = op["dir"]
        if d not in self.disk:
            return "noop"
        pyhf, ctx = self.pyhf, self.ctx
        st = self.disk[d]
        loc = self._dpath(st["loc"])
        top = os.path.join(loc, f"{st['prefix']}.xml")
        cwd = os.getcwd()
        mounts = None
        if st["moved"]:
            from pathlib import Path

            # uproot records the ROOT file by absolute path even for a relative export, the channel
            # XML files are listed as given: a moved relative export needs both mounts
            mounts = [(Path(loc), Path(st["origin"]))]
            if st["pathstyle"] != "abs":
                mounts.append((Path(loc), Path(st["export_cwd"]) / st["outdir_as_given"]))  # un-normalised absolute
                mounts.append((Path(loc), Path(st["outdir_as_given"])))
        how = op["how"]
        rootdir_abs = st["cwd"]
        try:
            if how == "cli":
                args = ["xml2json", top, "--basedir", rootdir_abs, "--hide-progress"]
                for hp, mp in mounts or []:
                    args += ["-v", f"{hp}:{mp}"]
                r = self.runner.invoke(self.cli, args, catch_exceptions=True)
                if r.exit_code != 0:
                    raise r.exception if isinstance(r.exception, Exception) else RuntimeError(f"exit {r.exit_code}")
                parsed = json.loads(r.stdout)
            else:
                from pathlib import Path

                if how == "lib_rel":
                    rootdir = os.path.relpath(rootdir_abs, cwd)
                    toparg = os.path.relpath(top, cwd)
                elif how == "lib_str":
                    rootdir, toparg = rootdir_abs, top
                else:
                    rootdir, toparg = Path(rootdir_abs), Path(top)
                parsed = pyhf.readxml.parse(toparg, rootdir, mounts=mounts)
            exc = None
        except Exception as e:
            parsed, exc = None, e
        others_cached = bool(self.cached_dirs - {d})
        was_cached = d in self.cached_dirs
        self.cached_dirs.add(d)
        if st["state"] != "complete":
            ctx.probe("import_torn_" + ("raised" if exc else "returned"))
            return "torn:" + (type(exc).__name__ if exc else "returned")
        # non-triviality bookkeeping
        tags = []
        if st["nexports"] > 1:
            ctx.probe("import_after_reexport_same_dir")
            tags.append("reexport")
            if was_cached:
                ctx.probe("import_after_reexport_while_cached")
                tags.append("cached")
        if st["chdir_since"]:
            ctx.probe("import_after_chdir")
            tags.append("chdir")
        if st["moved"]:
            ctx.probe("import_after_move")
            tags.append("moved")
        if st["faulted"]:
            ctx.probe("import_after_faulted_export")
            tags.append("faulted")
        if others_cached:
            ctx.probe("import_with_other_dir_cached")
            tags.append("others_cached")
        if tags:
            ctx.mark_nontrivial([tags, how, st["pathstyle"], st["prefix"], len(self.disk), sorted(self.cached_dirs)])
        ctx.state(["import", tags, how, st["pathstyle"]])
        sig = {"cls": "import"}
        if exc is not None:
            ctx.fail("roundtrip", dict(sig, what="import_raises", exc=type(exc).__name__),
                     f"import of completely exported directory d{d} raised {type(exc).__name__}: {str(exc)[:300]} (how={how}, tags={tags}, style={st['pathstyle']})")
            return "raised"
        res = self._compare(st["snap"], parsed, op["pt"], tags, how)   # what was exported, as it was at that moment
        if op.get("scribble"):
            # what a user may do with the workspace they were handed: edit it in place.  A later import of the same
            # (unchanged) files must still return what the files contain.
            _scribble(parsed)
            ctx.fault("scribble_imported")
        return res

    # -- the round-trip oracle -----------------------------------------------------
    def _compare(self, orig, parsed, pt, tags, how):
        pyhf, ctx = self.pyhf, self.ctx
        ctx.c.oracle_evals["roundtrip"] += 1
        ctxs = f"(how={how}, tags={tags})"

        def fail(what, detail):
            ctx.fail("roundtrip", {"cls": "import", "what": what}, f"{what}: {detail} {ctxs}")

        oc = {c["name"]: c for c in orig["channels"]}
        pc = {c["name"]: c for c in parsed["channels"]}
        if sorted(oc) != sorted(pc):
            return fail("channels", f"{sorted(oc)} vs {sorted(pc)}")
        for cn in oc:
            osamp = {s["name"]: s for s in oc[cn]["samples"]}
            psamp = {s["name"]: s for s in pc[cn]["samples"]}
            if sorted(osamp) != sorted(psamp):
                return fail("samples", f"channel {cn}: {sorted(osamp)} vs {sorted(psamp)}")
            for sn in osamp:
                if not np.allclose(osamp[sn]["data"], psamp[sn]["data"], rtol=1e-12, atol=0):
                    return fail("nominal", f"{cn}/{sn}: {osamp[sn]['data']} vs {psamp[sn]['data']}")
        oo = {o["name"]: o["data"] for o in orig["observations"]}
        po = {o["name"]: o["data"] for o in parsed["observations"]}
        if sorted(oo) != sorted(po) or any(not np.allclose(oo[k], po[k], rtol=1e-12, atol=0) for k in oo):
            return fail("observations", f"{oo} vs {po}")
        om = {m["name"]: m for m in orig["measurements"]}
        pm = {m["name"]: m for m in parsed["measurements"]}
        if sorted(om) != sorted(pm):
            return fail("measurements", f"{sorted(om)} vs {sorted(pm)}")
        # staterror is renamed by the format
        rename = {}
        for c in orig["channels"]:
            for s in c["samples"]:
                for m in s["modifiers"]:
                    if m["type"] == "staterror":
                        rename[m["name"]] = f"staterror_{c['name']}"
        r = random.Random(pt)
        wo, wp = pyhf.Workspace(orig), pyhf.Workspace(parsed)
        out = []
        for mn in sorted(om):
            if om[mn]["config"]["poi"] != pm[mn]["config"]["poi"]:
                return fail("poi", f"measurement {mn}: {om[mn]['config']['poi']} vs {pm[mn]['config']['poi']}")
            try:
                mo = wo.model(measurement_name=mn)
            except Exception as e:
                raise core.HarnessError(f"original workspace does not build: {type(e).__name__}: {e}")
            try:
                mp = wp.model(measurement_name=mn)
            except Exception as e:
                return fail("model_build", f"re-imported workspace does not build for {mn}: {type(e).__name__}: {str(e)[:300]}")
            co, cp = mo.config, mp.config
            names_o = [rename.get(n, n) for n in co.par_order]
            if sorted(names_o) != sorted(cp.par_order):
                return fail("parameters", f"{mn}: {sorted(names_o)} vs {sorted(cp.par_order)}")
            # constant flags by name
            fo, fp = co.suggested_fixed(), cp.suggested_fixed()
            for n in co.par_order:
                a = fo[co.par_slice(n)]
                b = fp[cp.par_slice(rename.get(n, n))]
                if list(a) != list(b):
                    return fail("constant_flags", f"{mn}: parameter {n}: fixed {a} vs {b}")
            if "lumi" in co.par_order:
                lo, lp = co.param_set("lumi"), cp.param_set("lumi")
                if float(lo.auxdata[0]) != 1.0:
                    ctx.probe("lumi_not_one")
                if not (np.allclose(lo.auxdata, lp.auxdata, rtol=1e-9) and np.allclose(lo.sigmas, lp.sigmas, rtol=1e-9)):
                    return fail("lumi", f"{mn}: central/uncertainty ({lo.auxdata},{lo.sigmas}) came back as ({lp.auxdata},{lp.sigmas})")
            # likelihood at seeded points, parameters and auxiliary data matched by name
            init, bounds = co.suggested_init(), co.suggested_bounds()
            auxo = {n: list(co.param_set(n).auxdata) for n in co.auxdata_order}
            for ipt in range(5):
                scale = [0.05, 0.3, 0.6, 1.0, 0.15][ipt]
                po_ = []
                for v, (lo_, hi_) in zip(init, bounds):
                    x = v + r.uniform(-1, 1) * scale * min(2.5, (hi_ - lo_) / 2)
                    po_.append(min(max(x, lo_ + 1e-3 * (hi_ - lo_)), hi_))
                po_ = np.asarray(po_)
                pp_ = np.zeros(cp.npars)
                for n in co.par_order:
                    pp_[cp.par_slice(rename.get(n, n))] = po_[co.par_slice(n)]
                for ids in range(3):
                    mult = {n: [1 + (0.06 * r.uniform(-1, 1) if ids else 0.0) for _ in auxo[n]] for n in auxo}
                    main = []
                    for cn in co.channels:
                        main += [float(max(0, round(v * (1 + (0.2 * r.uniform(-1, 1) if ids == 2 else 0))))) for v in oo[cn]]
                    do = main + [a * m for n in co.auxdata_order for a, m in zip(auxo[n], mult[n])]
                    auxp = {n: list(cp.param_set(n).auxdata) for n in cp.auxdata_order}
                    inv = {rename.get(n, n): n for n in auxo}
                    dp = list(main)
                    for n in cp.auxdata_order:
                        if n not in inv:
                            return fail("auxdata", f"{mn}: constrained parameter {n} only in re-import")
                        dp += [a * m for a, m in zip(auxp[n], mult[inv[n]])]
                    lo_v = float(mo.logpdf(po_, np.asarray(do))[0])
                    lp_v = float(mp.logpdf(pp_, np.asarray(dp))[0])
                    ctx.c.oracle_evals["likelihood_points"] += 1
                    if not (np.isfinite(lo_v) and np.isfinite(lp_v)):
                        if not (np.isnan(lo_v) and np.isnan(lp_v)) and lo_v != lp_v:
                            return fail("likelihood", f"{mn}: logpdf {lo_v} vs {lp_v}")
                        continue
                    if abs(lo_v - lp_v) > 1e-9 * max(1.0, abs(lo_v)):
                        return fail("likelihood", f"{mn}: logpdf original {lo_v!r} vs re-imported {lp_v!r} at point #{ipt} dataset #{ids}")
                    out.append(lo_v)
        return core.fhex(out)
