"""C20 - structurally inconsistent specifications are refused.

Single-step fault injection on documents: every fault class of the statement
is spliced at every applicable position of each generated, valid spec
(exhaustive per spec), plus sampled pairs; each faulted document is handed to
model construction through both public routes.
"""
from __future__ import annotations

import copy
import random

from sim import core
from sim.gen import specs

ID = "C20"
LEVEL = "fault_enumeration"
TIERS = {
    "quick": {"segments": 208, "wall": 120, "min_budget": 60},
    "thorough": {"segments": 3200, "wall": 1500, "min_budget": 300},
}
SEGMENT_TIMEOUT = 600
SAMPLE_MAXOPS = 10
SAMPLE_TRUNCATE = True   # segments have hundreds of ops: evidence shows the head of the trace
RULE = (
    "segment = one generated valid workspace (first built un-faulted: must be accepted) and, for each fault class of the "
    "statement, one injected fault at every applicable position (exhaustive per spec) plus sampled pairs and benign "
    "controls; non-trivial+distinct = distinct (spec digest, fault class, variant, position, route) tuples judged"
)
STATE_MEASURE = "abstract state per judged build = (fault class, variant, route, outcome)"
ASSUMPTIONS = [
    "'one of pyhf's own exception types' = an instance of a class defined in module pyhf.exceptions",
    "a fault injected into an accepted valid spec at the listed positions is a structural inconsistency in the sense of the statement; benign look-alikes are injected as controls and must be accepted",
    "numpy backend only (model construction is backend independent; the backend dimension is C11's)",
]
COMPONENTS = {
    "real": ["pyhf.Model", "pyhf.Workspace(...).model()", "schema validation", "all modifier builders", "paramset reduction"],
    "stub": ["spec documents (generated)", "fault injector"],
}
EXPECTED_PROBES = ["rejected_own_exception", "control_accepted", "base_accepted"]
BINWISE = ("histosys", "shapesys", "staterror")


# ---------------------------------------------------------------------------
# edits
# ---------------------------------------------------------------------------

def apply_edits(doc, edits):
    doc = copy.deepcopy(doc)
    for e in edits:
        kind, path = e[0], e[1]
        cur = doc
        for p in path[:-1]:
            cur = cur[p]
        last = path[-1]
        if kind == "set":
            cur[last] = copy.deepcopy(e[2])
        elif kind == "ins":
            cur[last].insert(e[2], copy.deepcopy(e[3]))
        elif kind == "del":
            del cur[last]
        else:
            raise core.HarnessError(f"bad edit {e}")
    return doc


def _different_data(m, rng):
    t = m["type"]
    if t == "normsys":
        return {"hi": round(m["data"]["hi"] + 0.11, 3), "lo": round(m["data"]["lo"] - 0.07, 3)}
    if t == "histosys":
        return {"hi_data": [round(v * 1.1 + 0.5, 3) for v in m["data"]["hi_data"]],
                "lo_data": [round(v * 0.9, 3) for v in m["data"]["lo_data"]]}
    return [round(v * 1.7 + 0.1, 3) for v in m["data"]]


def _moddata(t, n, rng):
    if t == "histosys":
        return {"hi_data": [round(rng.uniform(5, 50), 3) for _ in range(n)], "lo_data": [round(rng.uniform(1, 5), 3) for _ in range(n)]}
    if t == "normsys":
        return {"hi": 1.1, "lo": 0.9}
    if t in ("shapesys", "staterror"):
        return [round(rng.uniform(0.5, 3), 3) for _ in range(n)]
    return None


def enumerate_faults(ws, rng):
    """Yield fault ops for workspace ws.  Paths are relative to the workspace document."""
    chans = ws["channels"]
    nb = [len(c["samples"][0]["data"]) for c in chans]
    out = []

    nmeas = len(ws["measurements"])

    def F(cls, variant, pos, edits, poi=None, pname=None):
        if cls in ("override_len", "poi_undefined", "lumi_unset"):
            mi = pos[0]
        else:
            mi = rng.randrange(nmeas)
        routes = ["model", "workspace"] if rng.random() < 0.35 else (["model"] if rng.random() < 0.8 else ["workspace"])
        # construction options that must not switch the structural checks off: validate=False only skips the JSON
        # schema, batch_size only adds a leading dimension
        if rng.random() < 0.3:
            routes = routes + [rng.choice(["model", "workspace"]) + rng.choice(["_nv", "_nv", "_b2", "_nv_b2"])]
        out.append({"op": "inject", "cls": cls, "variant": variant, "pos": pos, "edits": edits, "poi": poi,
                    "mi": mi, "routes": routes})
        if pname is not None:
            out[-1]["pname"] = pname

    # dup_channel
    for i in range(len(chans)):
        for j in range(len(chans)):
            if i != j:
                F("dup_channel", "rename", [i, j], [["set", ["channels", j, "name"], chans[i]["name"]]])
    # dup_sample
    for ci, c in enumerate(chans):
        for j in range(len(c["samples"])):
            for k in range(len(c["samples"])):
                if j != k:
                    F("dup_sample", "rename", [ci, j, k], [["set", ["channels", ci, "samples", k, "name"], c["samples"][j]["name"]]])
    # dup_modifier (same name+type twice on one sample, different data)
    for ci, c in enumerate(chans):
        for si, s in enumerate(c["samples"]):
            for mi, m in enumerate(s["modifiers"]):
                if m["type"] in ("normsys", "histosys", "staterror", "shapesys"):
                    d = dict(m, data=_different_data(m, rng))
                    for where, idx in (("after", mi + 1), ("end", len(s["modifiers"])), ("front", 0)):
                        F("dup_modifier", m["type"] + "_" + where, [ci, si, mi],
                          [["ins", ["channels", ci, "samples", si, "modifiers"], idx, d]])
    # sample_len
    for ci, c in enumerate(chans):
        if len(c["samples"]) < 2:
            continue
        for si, s in enumerate(c["samples"]):
            F("sample_len", "longer_first" if si == 0 else "longer", [ci, si],
              [["set", ["channels", ci, "samples", si, "data"], s["data"] + [3.5]]])
            if len(s["data"]) > 1:
                F("sample_len", "shorter_first" if si == 0 else "shorter", [ci, si],
                  [["set", ["channels", ci, "samples", si, "data"], s["data"][:-1]]])
    # moddata_len
    for ci, c in enumerate(chans):
        for si, s in enumerate(c["samples"]):
            for mi, m in enumerate(s["modifiers"]):
                base = ["channels", ci, "samples", si, "modifiers", mi, "data"]
                if m["type"] == "histosys":
                    for fld in ("hi_data", "lo_data"):
                        F("moddata_len", f"histosys_{fld}_longer", [ci, si, mi], [["set", base + [fld], m["data"][fld] + [2.5]]])
                        if nb[ci] > 1:
                            F("moddata_len", f"histosys_{fld}_shorter", [ci, si, mi], [["set", base + [fld], m["data"][fld][:-1]]])
                    F("moddata_len", "histosys_both_longer", [ci, si, mi],
                      [["set", base + ["hi_data"], m["data"]["hi_data"] + [2.5]], ["set", base + ["lo_data"], m["data"]["lo_data"] + [1.5]]])
                    # a 'no-op' variation (hi = lo = nominal) of the wrong length: nothing to see in the values
                    F("moddata_len", "histosys_nominal_longer", [ci, si, mi],
                      [["set", base + ["hi_data"], s["data"] + [s["data"][-1]]], ["set", base + ["lo_data"], s["data"] + [s["data"][-1]]]])
                elif m["type"] in ("shapesys", "staterror"):
                    F("moddata_len", m["type"] + "_longer", [ci, si, mi], [["set", base, m["data"] + [0.7]]])
                    if nb[ci] > 1:
                        F("moddata_len", m["type"] + "_shorter", [ci, si, mi], [["set", base, m["data"][:-1]]])
                    # all-zero uncertainties are legal values; their number still has to match
                    F("moddata_len", m["type"] + "_zeros_longer", [ci, si, mi], [["set", base, [0.0] * (nb[ci] + 1)]])
                    if nb[ci] > 1:
                        F("moddata_len", m["type"] + "_zeros_shorter", [ci, si, mi], [["set", base, [0.0] * (nb[ci] - 1)]])
    # compensating pairs: the same histosys on the same sample name in two channels, one too long, one too short
    # (a pair of moddata_len faults whose total length is right)
    for ci, c in enumerate(chans):
        for cj, c2 in enumerate(chans):
            if ci == cj or nb[cj] < 2:
                continue
            for si, s in enumerate(c["samples"]):
                for sj, s2 in enumerate(c2["samples"]):
                    if s["name"] != s2["name"]:
                        continue
                    for mi, m in enumerate(s["modifiers"]):
                        for mj, m2 in enumerate(s2["modifiers"]):
                            if m["type"] == "histosys" and m2["type"] == "histosys" and m["name"] == m2["name"]:
                                b1 = ["channels", ci, "samples", si, "modifiers", mi, "data"]
                                b2 = ["channels", cj, "samples", sj, "modifiers", mj, "data"]
                                F("pair", "moddata_len+moddata_len", [[ci, si, mi], [cj, sj, mj]],
                                  [["set", b1 + ["hi_data"], m["data"]["hi_data"] + [2.5]], ["set", b1 + ["lo_data"], m["data"]["lo_data"] + [1.5]],
                                   ["set", b2 + ["hi_data"], m2["data"]["hi_data"][:-1]], ["set", b2 + ["lo_data"], m2["data"]["lo_data"][:-1]]])
                                out[-1]["parts"] = [{"cls": "moddata_len", "variant": "histosys_both_longer"}, {"cls": "moddata_len", "variant": "histosys_both_shorter"}]
    # compensating pairs of sample lengths: one sample name in two channels, k entries too many in one channel and k too few
    # in the other (total length over all channels is right); with and without the sample's own bin-wise modifier data
    # resized along (a sample that is 'consistently' of the wrong length)
    def _resized(m, delta):
        d = m["data"]
        if m["type"] == "histosys":
            f = (lambda v: v + [2.5] * delta) if delta > 0 else (lambda v: v[:delta])
            return {"hi_data": f(d["hi_data"]), "lo_data": f(d["lo_data"])}
        if m["type"] in ("shapesys", "staterror"):
            return d + [0.7] * delta if delta > 0 else d[:delta]
        return d

    for ci, c in enumerate(chans):
        for cj, c2 in enumerate(chans):
            if ci == cj or len(c["samples"]) < 2 or len(c2["samples"]) < 2:
                continue   # the only sample of a channel defines its bin count: changing its length is not a fault
            for si, s in enumerate(c["samples"]):
                for sj, s2 in enumerate(c2["samples"]):
                    if s["name"] != s2["name"]:
                        continue
                    for k in (1, 2):
                        if nb[cj] <= k:
                            continue
                        for resize in (False, True):
                            ed = [["set", ["channels", ci, "samples", si, "data"], s["data"] + [3.5] * k],
                                  ["set", ["channels", cj, "samples", sj, "data"], s2["data"][:-k]]]
                            if resize:
                                for mi, m in enumerate(s["modifiers"]):
                                    if m["type"] in BINWISE:
                                        ed.append(["set", ["channels", ci, "samples", si, "modifiers", mi, "data"], _resized(m, k)])
                                for mj, m2 in enumerate(s2["modifiers"]):
                                    if m2["type"] in BINWISE:
                                        ed.append(["set", ["channels", cj, "samples", sj, "modifiers", mj, "data"], _resized(m2, -k)])
                                if len(ed) == 2:
                                    continue
                            F("pair", "sample_len+sample_len", [[ci, si], [cj, sj]], ed)
                            out[-1]["parts"] = [{"cls": "sample_len", "variant": "longer_first" if si == 0 else "longer"},
                                                {"cls": "sample_len", "variant": "shorter_first" if sj == 0 else "shorter"}]
    # binwise_shared: one bin-wise name on places with different bin counts
    for ci, c in enumerate(chans):
        for cj, c2 in enumerate(chans):
            if ci == cj or nb[ci] == nb[cj]:
                continue
            for si, s in enumerate(c["samples"]):
                for m in s["modifiers"]:
                    if m["type"] in ("staterror", "shapefactor", "shapesys"):
                        for sj in range(len(c2["samples"])):
                            if any(x["name"] == m["name"] for x in c2["samples"][sj]["modifiers"]):
                                continue
                            new = {"name": m["name"], "type": m["type"], "data": _moddata(m["type"], nb[cj], rng)}
                            F("binwise_shared", m["type"], [ci, si, cj, sj],
                              [["ins", ["channels", cj, "samples", sj, "modifiers"], rng.randrange(len(c2["samples"][sj]["modifiers"]) + 1), new]])
    # par_conflict: one name, conflicting requirement
    CONFLICT = {
        "normsys": ["normfactor", "shapesys", "staterror", "shapefactor", "lumi"],
        "histosys": ["normfactor", "shapesys", "staterror", "shapefactor"],
        "normfactor": ["normsys", "shapefactor", "shapesys", "staterror", "histosys"],
        "shapesys": ["normsys", "normfactor", "staterror", "shapefactor"],
        "staterror": ["normsys", "normfactor", "shapesys", "shapefactor", "histosys"],
        "shapefactor": ["normfactor", "normsys", "staterror", "shapesys"],
        "lumi": ["normsys", "normfactor"],
    }
    places = [(ci, si) for ci, c in enumerate(chans) for si in range(len(c["samples"]))]
    for ci, c in enumerate(chans):
        for si, s in enumerate(c["samples"]):
            for mi, m in enumerate(s["modifiers"]):
                for t2 in CONFLICT[m["type"]]:
                    if t2 == "lumi":
                        continue  # a lumi modifier must be called 'lumi'; handled from the lumi side
                    cands = [(cj, sj) for cj, sj in places
                             if not any(x["name"] == m["name"] and x["type"] == t2 for x in chans[cj]["samples"][sj]["modifiers"])]
                    for cj, sj in rng.sample(cands, min(1, len(cands))):
                        new = {"name": m["name"], "type": t2, "data": _moddata(t2, nb[cj], rng)}
                        F("par_conflict", f"{m['type']}_vs_{t2}", [ci, si, mi, cj, sj],
                          [["ins", ["channels", cj, "samples", sj, "modifiers"], len(chans[cj]["samples"][sj]["modifiers"]), new]], pname=m["name"])
    # override_len (per measurement)
    mods = {}
    for ci, c in enumerate(chans):
        for s in c["samples"]:
            for m in s["modifiers"]:
                mods.setdefault(m["name"], set()).add((m["type"], nb[ci]))
    for mi_, meas in enumerate(ws["measurements"]):
        plist = meas["config"]["parameters"]
        base = ["measurements", mi_, "config", "parameters"]
        for name in sorted(mods):
            types = {t for t, _ in mods[name]}
            n = 1 if types & {"normfactor", "normsys", "histosys", "lumi"} else max(b for _, b in mods[name])
            existing = next((i for i, p in enumerate(plist) if p["name"] == name), None)
            for key, good in (("inits", [1.0] * n), ("bounds", [[0.0, 5.0]] * n), ("auxdata", [1.0] * n), ("sigmas", [0.1] * n), ("factors", [4.0] * n)):
                if key == "factors" and types != {"shapesys"}:
                    continue   # only Poisson-constrained sets use factors
                if key in ("auxdata", "sigmas") and not types & {"normsys", "histosys", "staterror", "lumi"}:
                    continue
                if key == "sigmas" and types & {"shapesys"}:
                    continue
                for variant, bad in (("longer", good + [good[0]]), ("shorter", good[:-1])):
                    if not bad:
                        continue
                    if existing is None:
                        if name == "lumi":
                            continue
                        e = [["ins", base, len(plist), {"name": name, key: bad}]]
                    else:
                        e = [["set", base + [existing, key], bad]]
                    F("override_len", f"{key}_{variant}_{sorted(types)[0]}", [mi_, name], e, poi=None, pname=name)
        for i, p in enumerate(plist):
            dupe = copy.deepcopy(p)
            if "inits" in dupe:
                dupe["inits"] = [round(v + 0.25, 3) for v in dupe["inits"]]
            else:
                dupe["fixed"] = not dupe.get("fixed", False)
            F("override_len", "two_configs", [mi_, i], [["ins", base, len(plist), dupe]])
    # poi_undefined
    for mi_, meas in enumerate(ws["measurements"]):
        F("poi_undefined", "unknown_name", [mi_], [["set", ["measurements", mi_, "config", "poi"], "no_such_parameter"]], poi="no_such_parameter")
        for name in sorted(mods):
            types = {t for t, _ in mods[name]}
            n = max(b for _, b in mods[name])
            if types & {"staterror", "shapesys", "shapefactor"} and n > 1:
                F("poi_undefined", "multi_component_" + sorted(types)[0], [mi_, name],
                  [["set", ["measurements", mi_, "config", "poi"], name]], poi=name)
    # lumi_unset
    has_lumi = "lumi" in mods
    for mi_, meas in enumerate(ws["measurements"]):
        plist = meas["config"]["parameters"]
        base = ["measurements", mi_, "config", "parameters"]
        li = next((i for i, p in enumerate(plist) if p["name"] == "lumi"), None)
        if has_lumi and li is not None:
            F("lumi_unset", "no_settings", [mi_], [["del", base + [li]]], pname="lumi")
            for keep in (["auxdata"], ["sigmas"], ["inits", "bounds"], ["auxdata", "sigmas"], ["auxdata", "sigmas", "inits"], ["auxdata", "sigmas", "bounds"]):
                part = {"name": "lumi", **{k: plist[li][k] for k in keep}}
                F("lumi_unset", "only_" + "_".join(keep), [mi_], [["set", base + [li], part]], pname="lumi")
        elif not has_lumi:
            # splice a lumi modifier in without any settings
            ci = rng.randrange(len(chans))
            si = rng.randrange(len(chans[ci]["samples"]))
            F("lumi_unset", "added_no_settings", [mi_, ci, si],
              [["ins", ["channels", ci, "samples", si, "modifiers"], 0, {"name": "lumi", "type": "lumi", "data": None}]])
    return out


def enumerate_controls(ws, rng):
    chans = ws["channels"]
    nb = [len(c["samples"][0]["data"]) for c in chans]
    out = []

    def C(variant, pos, edits):
        out.append({"op": "control", "variant": variant, "pos": pos, "edits": edits})

    places = [(ci, si) for ci, c in enumerate(chans) for si in range(len(c["samples"]))]
    for ci, c in enumerate(chans):
        for si, s in enumerate(c["samples"]):
            for mi, m in enumerate(s["modifiers"]):
                L = len(s["modifiers"])
                if m["type"] == "normsys" and not any(x["name"] == m["name"] and x["type"] == "histosys" for x in s["modifiers"]):
                    C("histosys_shares_normsys_name", [ci, si, mi],
                      [["ins", ["channels", ci, "samples", si, "modifiers"], L, {"name": m["name"], "type": "histosys", "data": _moddata("histosys", nb[ci], rng)}]])
                if m["type"] == "histosys" and not any(x["name"] == m["name"] and x["type"] == "normsys" for x in s["modifiers"]):
                    C("normsys_shares_histosys_name", [ci, si, mi],
                      [["ins", ["channels", ci, "samples", si, "modifiers"], 0, {"name": m["name"], "type": "normsys", "data": {"hi": 1.2, "lo": 0.8}}]])
                if m["type"] in ("normsys", "normfactor", "histosys", "shapefactor"):
                    # share the same (name, type) with another sample where bin counts agree
                    for cj, sj in places:
                        if (cj, sj) != (ci, si) and (m["type"] in ("normsys", "normfactor") or nb[cj] == nb[ci]) and \
                                not any(x["name"] == m["name"] for x in chans[cj]["samples"][sj]["modifiers"]):
                            C("shared_" + m["type"], [ci, si, mi, cj, sj],
                              [["ins", ["channels", cj, "samples", sj, "modifiers"], 0,
                                {"name": m["name"], "type": m["type"], "data": _moddata(m["type"], nb[cj], rng)}]])
                            break
                if m["type"] == "staterror":
                    for sj in range(len(c["samples"])):
                        if sj != si and not any(x["name"] == m["name"] for x in c["samples"][sj]["modifiers"]):
                            C("staterror_shared_in_channel", [ci, si, mi, sj],
                              [["ins", ["channels", ci, "samples", sj, "modifiers"], 0,
                                {"name": m["name"], "type": "staterror", "data": _moddata("staterror", nb[ci], rng)}]])
                            break
    for mi_, meas in enumerate(ws["measurements"]):
        plist = meas["config"]["parameters"]
        if not any(p["name"] == "mu" for p in plist):
            C("override_right_length", [mi_], [["ins", ["measurements", mi_, "config", "parameters"], 0, {"name": "mu", "inits": [1.5], "bounds": [[0.0, 8.0]]}]])
    return out


def _ensure_features(ws, rng):
    """make every fault class applicable: >=2 channels with different bin counts,
    >=2 samples somewhere, all data-carrying modifier types present."""
    chans = ws["channels"]
    have = {m["type"] for c in chans for s in c["samples"] for m in s["modifiers"]}
    for t in ("normsys", "histosys", "shapesys", "staterror", "shapefactor"):
        if t not in have and rng.random() < 0.8:
            ci = rng.randrange(len(chans))
            c = chans[ci]
            cand = [s for s in c["samples"] if s["name"] != "signal"] or c["samples"]
            s = rng.choice(cand)
            n = len(s["data"])
            name = {"normsys": "ns_extra", "histosys": "hs_extra", "shapesys": f"shape_x_{c['name']}_{s['name']}",
                    "staterror": f"staterror_{c['name']}", "shapefactor": f"sf_x_{c['name']}"}[t]
            if t in ("shapesys", "staterror"):
                data = [round(v * 0.1, 3) for v in s["data"]]
            elif t == "histosys":
                data = {"hi_data": [round(v * 1.1, 3) for v in s["data"]], "lo_data": [round(v * 0.9, 3) for v in s["data"]]}
            else:
                data = _moddata(t, n, rng)
            s["modifiers"].append({"name": name, "type": t, "data": data})


def gen(rng: random.Random, k: int, tier: str) -> dict:
    for _ in range(50):
        ws = specs.gen_workspace(rng, max_channels=3, max_samples=3, max_bins=3, n_meas=(1, 2))
        if len(ws["channels"]) >= 2 and len({len(c["samples"][0]["data"]) for c in ws["channels"]}) >= 2 \
                and any(len(c["samples"]) >= 2 for c in ws["channels"]):
            break
    _ensure_features(ws, rng)
    cfg = {"pairs": rng.choice([0, 6, 16])}
    ops = [{"op": "base", "ws": ws}]
    faults = enumerate_faults(ws, rng)
    controls = enumerate_controls(ws, rng)
    pairs = []
    for _ in range(cfg["pairs"]):
        a, b = rng.sample(faults, 2)
        if a["cls"] == "poi_undefined" or b["cls"] == "poi_undefined" or a is b:
            continue
        # two renames can compose into a consistent spec (a swap): same-class pairs only for non-rename classes
        if a["cls"] == b["cls"] and a["cls"] in ("dup_channel", "dup_sample"):
            continue
        # two sample-length faults in ONE channel can compose into a consistent channel with another bin count
        # (all its samples lengthened alike): not a fault (false alarm found by a soak at seed 2, segment 42)
        if a["cls"] == b["cls"] == "sample_len" and a["pos"][0] == b["pos"][0]:
            continue
        # combine only if the two edits touch different lists/leaves (keeps indices valid)
        pa = {tuple(e[1][:4]) for e in a["edits"]}
        pb = {tuple(e[1][:4]) for e in b["edits"]}
        if pa & pb:
            continue
        pairs.append({"op": "inject", "cls": "pair", "variant": f"{a['cls']}+{b['cls']}", "pos": [a["pos"], b["pos"]],
                      "edits": a["edits"] + b["edits"], "poi": None, "mi": a["mi"], "routes": ["model", "workspace"] + (["model_nv"] if rng.random() < 0.2 else []),
                      "parts": [{"cls": a["cls"], "variant": a["variant"]}, {"cls": b["cls"], "variant": b["variant"]}]})
    # two faults about ONE parameter name (e.g. lumi settings removed AND the name 'lumi' also demanded by a normsys):
    # each component is refused alone; together one may mask the other's check
    byname = {}
    for f in faults:
        if f.get("pname") is not None:
            byname.setdefault(f["pname"], []).append(f)
    related = []
    for name in sorted(byname):
        fs = byname[name]
        for i in range(len(fs)):
            for j in range(i + 1, len(fs)):
                a, b = fs[i], fs[j]
                if a["cls"] == b["cls"]:
                    continue
                if {tuple(e[1][:4]) for e in a["edits"]} & {tuple(e[1][:4]) for e in b["edits"]}:
                    continue
                if "override_len" in (a["cls"], b["cls"]) and "lumi_unset" in (a["cls"], b["cls"]):
                    continue   # both edit the same measurement entry
                # the measurement used must be the one whose settings were damaged
                mi = a["mi"] if a["cls"] in ("override_len", "lumi_unset") else b["mi"]
                related.append({"op": "inject", "cls": "pair", "variant": f"{a['cls']}+{b['cls']}", "pos": [a["pos"], b["pos"]],
                                "edits": a["edits"] + b["edits"], "poi": None, "mi": mi, "routes": ["model", "workspace"],
                                "parts": [{"cls": a["cls"], "variant": a["variant"]}, {"cls": b["cls"], "variant": b["variant"]}]})
    pairs += rng.sample(related, min(len(related), 12))
    body = faults + controls + pairs
    rng.shuffle(body)
    ops += body
    return {"cfg": cfg, "ops": ops}


MAX_REPORTS = 10


def dedupe_key(sig):
    return [sig.get("cls"), sig.get("variant", "").split("_")[0] if sig.get("cls") in ("binwise_shared", "dup_modifier") else "",
            "accepted" if sig.get("outcome") == "accepted" else "foreign_exception"]


def simplify(op):
    if op["op"] == "base":
        return
    yield from ()


class World:
    def __init__(self, scratch):
        import pyhf

        self.pyhf = pyhf
        pyhf.set_backend("numpy")

    def begin(self, ctx, cfg):
        self.ctx, self.cfg = ctx, cfg
        self.ws = None
        import logging

        logging.getLogger("pyhf").setLevel(logging.CRITICAL)

    def end(self):
        pass

    def run(self, op):
        return getattr(self, "op_" + op["op"])(op)

    def _build(self, ws, route, mi, poi=None):
        pyhf = self.pyhf
        kw = {}
        if "_nv" in route:
            kw["validate"] = False
        if "_b2" in route:
            kw["batch_size"] = 2
        if route.startswith("model"):
            spec, p = specs.model_spec(ws, mi)
            return pyhf.Model(spec, poi_name=poi if poi is not None else p, **kw)
        w = pyhf.Workspace(ws, validate="_nv" not in route)
        return w.model(measurement_name=ws["measurements"][mi]["name"], **kw)

    def op_base(self, op):
        self.ws = op["ws"]
        self.docid = core.short(core.canon(self.ws), 12)
        for mi in range(len(self.ws["measurements"])):
            for route in ("model", "workspace"):
                try:
                    self._build(self.ws, route, mi)
                except Exception as e:
                    raise core.HarnessError(f"generated base spec rejected via {route}: {type(e).__name__}: {e}")
        self.ctx.probe("base_accepted")
        return self.docid

    def _try(self, ws, route, mi, poi):
        snap = core.canon(ws)
        try:
            m = self._build(ws, route, mi, poi)
            out = ("accepted", m)
        except Exception as e:
            out = (type(e), e)
        if core.canon(ws) != snap:
            self.ctx.probe("input_spec_mutated")
        return out

    def op_inject(self, op):
        if self.ws is None:
            return "noop"
        ctx = self.ctx
        try:
            ws = apply_edits(self.ws, op["edits"])
        except (KeyError, IndexError, TypeError):
            return "noop"
        # the fault must leave the document schema-valid (the property is about what passes the schema)
        try:
            self.pyhf.schema.validate(ws, "workspace.json", version="1.0.0")
        except Exception as e:
            raise core.HarnessError(f"injector produced a schema-invalid document for {op['cls']}/{op['variant']}: {e}")
        ctx.fault(op["cls"])
        res = []
        mi = op.get("mi", 0)
        if mi >= len(ws["measurements"]):
            mi = 0
        for route in op.get("routes", ["model", "workspace"]):
            kind, e = self._try(ws, route, mi, op.get("poi") if route.startswith("model") else None)
            ctx.mark_nontrivial([self.docid, op["cls"], op["variant"], op["pos"], route, mi])
            ctx.state([op["cls"], op["variant"], route, kind if isinstance(kind, str) else kind.__name__])
            sig = {"cls": op["cls"], "variant": op["variant"], "route": route}
            ctx.c.oracle_evals["refused"] += 1
            if kind == "accepted" or kind.__module__ != "pyhf.exceptions":
                outcome = "accepted" if kind == "accepted" else kind.__name__
                what = ("accepted as a model" if kind == "accepted"
                        else f"raised {kind.__module__}.{kind.__name__}: {str(e)[:200]}")
                # a pair whose outcome is explained by a component that is itself a listed known finding
                # is attributed to that finding (documented limitation: the other component is judged alone elsewhere)
                attributed = False
                for part in op.get("parts", []):
                    psig = dict(part, route=route, outcome=outcome, oracle="refused")
                    if ctx.known.match(psig) is not None:
                        ctx.fail("refused", dict(part, route=route, outcome=outcome), "pair containing a known finding")
                        attributed = True
                        break
                if not attributed:
                    ctx.fail("refused", dict(sig, outcome=outcome),
                             f"{op['cls']}/{op['variant']} at {op['pos']} via {route} {what} (edits={op['edits']})")
                res.append(outcome)
            else:
                ctx.probe("rejected_own_exception")
                ctx.probe("rejected_" + kind.__name__)
                res.append(kind.__name__)
        return res

    def op_control(self, op):
        if self.ws is None:
            return "noop"
        ctx = self.ctx
        try:
            ws = apply_edits(self.ws, op["edits"])
        except (KeyError, IndexError, TypeError):
            return "noop"
        res = []
        for mi in range(min(1, len(ws["measurements"]))):
            for route in ("model", "workspace", "model_nv", "workspace_nv_b2"):
                kind, e = self._try(ws, route, mi, None)
                ctx.c.oracle_evals["control"] += 1
                if kind != "accepted":
                    ctx.fail("control", {"cls": "control", "variant": op["variant"], "route": route, "outcome": kind.__name__},
                             f"benign look-alike {op['variant']} at {op['pos']} rejected via {route}: {kind.__name__}: {str(e)[:200]}")
                else:
                    ctx.probe("control_accepted")
                res.append(kind if isinstance(kind, str) else kind.__name__)
        return res
