"""C03 - interpolation codes: defining piecewise functions, fast = slow, and
independence from the shapes of earlier calls on the same interpolator (the
history clause is what the simulator searches; the formula is the per-call
reference model)."""
from __future__ import annotations

import gc
import math
import random

import numpy as np

from sim import core
from sim.ref import interp as R

ID = "C03"
LEVEL = "exploration"
TIERS = {
    "quick": {"segments": 800, "wall": 150, "min_budget": 60},
    "thorough": {"segments": 24000, "wall": 1500, "min_budget": 300},
}
SEGMENT_TIMEOUT = 600
SAMPLE_MAXOPS = 10
RULE = (
    "segment = seeded history of create/call/switch/drop/gc on a pool of interpolator instances, alpha-set shape "
    "changing between calls, alphas biased to 0, +-1, their floating-point neighbours and both extrapolation sides; "
    "non-trivial = a call on an instance whose previous call had a different alpha-set shape or that survived a backend "
    "switch since its last call; distinct = different (code, backend, precision, previous shape, shape, switches survived, "
    "set of regimes hit) tuples"
)
STATE_MEASURE = "abstract state after each call = (code, backend, precision, previous alpha-set shape, current shape, switches survived (<=2), alpha0)"
ASSUMPTIONS = [
    "reference = closed-form HistFactory piecewise functions in sim/ref/interp.py (code 2 in its continuous form; code 4 polynomial from an exactly solved 6x6 system, not pyhf's literal inverse)",
    "error model |got-ref| <= 64*eps*sum|terms| with eps of the working precision; alphas and histograms are rounded to the working precision before the reference is evaluated",
    "fresh interpolator's first call defines history independence (8 ulp)",
    "'for all alpha' is sampled at pool points inside the histories; breakpoint/regime hit counts are reported",
]
COMPONENTS = {
    "real": ["pyhf.interpolators code0/1/2/4/4p and _slow_code*", "all four tensor backends, both precisions", "event bus (re-precompute on switch)"],
    "stub": ["reference formulae (oracle)", "cyclic GC (scheduled)"],
}
EXPECTED_PROBES = ["call_after_shape_change", "call_after_switch", "hit_breakpoint_plus1", "hit_breakpoint_minus1", "hit_extrap_hi", "hit_extrap_lo", "hit_zero"]

CODES = [0, 1, 2, 4, "4p"]
BACKENDS = ["numpy", "jax", "pytorch", "tensorflow"]
COST = {"numpy": 1.0, "pytorch": 2.0, "tensorflow": 4.0, "jax": 8.0}


def _alpha(rng):
    r = rng.random()
    if r < 0.10:
        return 0.0
    if r < 0.22:
        return rng.choice([1.0, -1.0])
    if r < 0.36:
        b = rng.choice([1.0, -1.0])
        d = rng.choice([math.inf, -math.inf])
        if rng.random() < 0.5:
            return float(np.nextafter(np.float64(b), d))
        return float(np.nextafter(np.float32(b), np.float32(d)))
    if r < 0.44:
        return rng.choice([1e-12, -1e-12, 1e-6, -1e-6, 5e-324, -5e-324])
    if r < 0.70:
        return round(rng.uniform(-1, 1), 4)
    if r < 0.92:
        return round(rng.choice([-1, 1]) * rng.uniform(1.0, 8.0), 4)
    if r < 0.97:
        return round(rng.choice([-1, 1]) * rng.uniform(8.0, 40.0), 3)   # far out on the extrapolation sides
    return round(rng.choice([-1, 1]) * rng.uniform(40.0, 300.0), 2)     # very far: still 'all alpha in R


def _gen_hist(rng, code):
    ns, nh, nb = rng.randint(1, 3), rng.randint(1, 2), rng.randint(1, 3)
    hs = []
    for _ in range(ns):
        hh = []
        for _ in range(nh):
            if code in (1, 4):
                nom = [round(rng.uniform(0.5, 20), 3) for _ in range(nb)]
                if rng.random() < 0.15:
                    # 'all positive down/nominal/up values': very asymmetric variations (the code-4 polynomial then
                    # dips below zero inside the core, which the formula and the scalar implementation handle)
                    hh.append([[round(v * rng.choice([1.0, rng.uniform(0.01, 0.3), rng.uniform(5, 60)]), 4) for v in nom], nom,
                               [round(v * rng.choice([rng.uniform(5, 80), rng.uniform(5, 80), rng.uniform(0.01, 0.3)]), 4) for v in nom]])
                elif rng.random() < 0.25:
                    # variations on the 'wrong' side of the nominal are legal inputs too
                    hh.append([[round(v * rng.uniform(0.5, 1.6), 4) for v in nom], nom,
                               [round(v * rng.uniform(0.6, 2.0), 4) for v in nom]])
                else:
                    hh.append([[round(v * rng.uniform(0.3, 0.99), 4) for v in nom], nom,
                               [round(v * rng.uniform(1.01, 3.0), 4) for v in nom]])
            else:
                nom = [round(rng.uniform(1, 80), 3) for _ in range(nb)]
                # additive codes: up/down may be on either side of nominal
                hh.append([[round(v * rng.uniform(0.4, 1.3), 4) for v in nom], nom,
                           [round(v * rng.uniform(0.8, 2.0), 4) for v in nom]])
        hs.append(hh)
    return hs


def gen(rng: random.Random, k: int, tier: str) -> dict:
    deep = tier == "thorough" and k % 3 == 2   # thorough: every third segment is a three times longer history
    nb = rng.choice([1, 1, 2, 3, 4])
    backends = rng.sample(BACKENDS, nb)
    if rng.random() < 0.6 and "numpy" not in backends:
        backends[0] = "numpy"
    cfg = {"backends": backends, "precs": rng.choice([["64b"], ["64b", "32b"], ["64b", "32b"]]),
           "codes": rng.sample(CODES, rng.randint(1, 5)), "len": rng.randint(6, 40) * (3 if deep else 1),
           "switch_w": rng.choice([0.0, 0.5, 1.5, 3.0]), "fault_rate": rng.choice([0.0, 0.1, 0.3]),
           "reuse": rng.random() < 0.4}   # the caller keeps one alpha tensor per instance and updates it in place
    ops, live, nextid = [], {}, 0
    a0s = {}
    codes = {}
    cur = "numpy"
    budget = 120.0 * (3 if deep else 1)
    if rng.random() < 0.7:
        b0 = rng.choice(backends)
        ops.append({"op": "switch", "backend": b0, "precision": rng.choice(cfg["precs"])})
        cur = b0
    for _ in range(cfg["len"]):
        if budget <= 0:
            break
        w = {"create": 2.0 if len(live) < 4 else 0.0, "call": 8.0 if live else 0.0, "callmany": 2.5 if len(live) > 1 else 0.0, "switch": cfg["switch_w"],
             "drop": 0.5 if live else 0.0, "gc": 3 * cfg["fault_rate"]}
        if not live:
            w["create"] = 10.0
        kinds = list(w)
        kind = rng.choices(kinds, weights=[w[x] for x in kinds])[0]
        if kind == "create":
            code = rng.choice(cfg["codes"])
            op = {"op": "create", "id": nextid, "code": code, "hist": _gen_hist(rng, code)}
            if live and rng.random() < 0.4:
                # a sibling of a live instance: same code, same number of systematics and histograms, other numbers
                sib = rng.choice(sorted(live))
                code = codes[sib]
                for _ in range(20):
                    h = _gen_hist(rng, code)
                    if len(h) == live[sib]:
                        op = {"op": "create", "id": nextid, "code": code, "hist": h}
                        break
            if code == 4 and rng.random() < 0.4:
                op["alpha0"] = rng.choice([0.5, 1.5, 2.0, 3.0])   # exactly representable breakpoints
            ops.append(op)
            live[nextid] = len(ops[-1]["hist"])
            codes[nextid] = code
            a0s[nextid] = op.get("alpha0", 1.0)
            nextid += 1
            budget -= 0.5
        elif kind == "call":
            oid = rng.choice(sorted(live))
            na = rng.choice([1, 1, 2, 3, 5])
            al = [[_alpha(rng) for _ in range(na)] for _ in range(live[oid])]
            a0 = a0s.get(oid, 1.0)
            if a0 != 1.0:
                # the breakpoints of this instance are at +-alpha0
                for row in al:
                    for j in range(len(row)):
                        if rng.random() < 0.35:
                            b = rng.choice([a0, -a0])
                            row[j] = rng.choice([b, float(np.nextafter(np.float64(b), math.inf)), float(np.nextafter(np.float64(b), -math.inf)),
                                                 float(np.nextafter(np.float32(b), np.float32(math.inf))), float(np.nextafter(np.float32(b), np.float32(-math.inf)))])
            ops.append({"op": "call", "id": oid, "alphas": al})
            if cfg["reuse"] and rng.random() < 0.6:
                ops[-1]["reuse"] = True
            budget -= COST[cur]
        elif kind == "callmany":
            # instances of one code with the same number of systematics, same alpha-set shape, evaluated back to back
            oid = rng.choice(sorted(live))
            same = [i for i in sorted(live) if live[i] == live[oid] and codes[i] == codes[oid]]
            ids = rng.sample(same, min(len(same), rng.randint(2, 3))) if len(same) > 1 else rng.sample(sorted(live), min(len(live), 2))
            na = rng.choice([1, 2, 3, 5])
            ops.append({"op": "callmany", "calls": [{"id": i, "alphas": [[_alpha(rng) for _ in range(na)] for _ in range(live[i])]} for i in ids]})
            budget -= COST[cur] * len(ids)
        elif kind == "switch":
            cur = rng.choice(backends)
            ops.append({"op": "switch", "backend": cur, "precision": rng.choice(cfg["precs"])})
            budget -= 0.5 * COST[cur]
        elif kind == "drop":
            oid = rng.choice(sorted(live))
            del live[oid]
            ops.append({"op": "drop", "id": oid})
        else:
            ops.append({"op": "gc"})
    return {"cfg": cfg, "ops": ops}


def simplify(op):
    if op["op"] == "switch":
        if op["backend"] != "numpy":
            yield dict(op, backend="numpy")
        if op["precision"] != "64b":
            yield dict(op, precision="64b")
    elif op["op"] == "call":
        al = op["alphas"]
        if len(al[0]) > 1:
            for j in range(len(al[0])):
                yield dict(op, alphas=[[row[j]] for row in al])
    elif op["op"] == "callmany":
        if len(op["calls"]) > 1:
            for i in range(len(op["calls"])):
                yield dict(op, calls=op["calls"][:i] + op["calls"][i + 1:])
    elif op["op"] == "create":
        h = op["hist"]
        if len(h) > 1:
            yield dict(op, hist=h[:1])
        if len(h[0]) > 1:
            yield dict(op, hist=[s[:1] for s in h])
        if len(h[0][0][0]) > 1:
            yield dict(op, hist=[[[v[:1] for v in hh] for hh in s] for s in h])


def dedupe_key(sig):
    return [sig.get("cls"), sig.get("code"), sig.get("regime")]


class World:
    def __init__(self, scratch):
        import pyhf

        self.pyhf = pyhf

    def begin(self, ctx, cfg):
        pyhf = self.pyhf
        self.ctx, self.cfg = ctx, cfg
        self.objs = {}
        gc.collect()
        gc.disable()
        ev = vars(pyhf.events).get("__events")
        if isinstance(ev, dict):
            for c in ev.values():
                if hasattr(c, "_callbacks"):
                    c._callbacks = []
        pyhf.set_backend("numpy", precision="64b")
        self.reg = ("numpy", "64b")

    def end(self):
        self.objs = {}
        gc.enable()

    def run(self, op):
        return getattr(self, "op_" + op["op"])(op)

    def op_create(self, op):
        if op["id"] in self.objs:
            return "dup"
        kw = {"alpha0": op["alpha0"]} if op.get("alpha0") is not None else {}
        itp = self.pyhf.interpolators.get(op["code"])(op["hist"], **kw)
        self.objs[op["id"]] = {"code": op["code"], "hist": op["hist"], "obj": itp, "kw": kw, "last_shape": None, "switches": 0, "ncalls": 0}
        return str(op["code"])

    def op_drop(self, op):
        if self.objs.pop(op["id"], None) is None:
            return "noop"
        self.ctx.fault("drop")
        return "ok"

    def op_gc(self, op):
        gc.collect()
        self.ctx.fault("gc_now")
        return "gc"

    def op_switch(self, op):
        self.pyhf.set_backend(op["backend"], precision=op["precision"])
        new = (op["backend"], op["precision"])
        if new != self.reg:
            for o in self.objs.values():
                o["switches"] += 1
            self.ctx.fault("switch")
        self.reg = new
        return "/".join(new)

    def _regime(self, a):
        b = getattr(self, "_a0", 1.0)   # breakpoint of the instance being judged
        if a == 0:
            return "zero"
        if a == b:
            return "plus1"
        if a == -b:
            return "minus1"
        if abs(a) < b:
            return "core"
        return "extrap_hi" if a > 0 else "extrap_lo"

    def op_callmany(self, op):
        """Several live instances are evaluated back to back BEFORE anything is judged: the oracles build fresh
        instances, and a construction in between could itself repair (or disturb) state shared between instances."""
        pend = []
        tl = self.pyhf.tensorlib
        ftype = np.float64 if self.reg[1] == "64b" else np.float32
        for c in op["calls"]:
            o = self.objs.get(c["id"])
            if o is None or len(c["alphas"]) != len(o["hist"]):
                continue
            al = np.asarray(c["alphas"], dtype=np.float64).astype(ftype).astype(np.float64)
            try:
                pend.append((c, ("ok", np.asarray(tl.tolist(o["obj"](tl.astensor(al))), dtype=np.float64))))
            except Exception as e:
                pend.append((c, ("exc", e)))
        if len(pend) > 1:
            self.ctx.probe("calls_back_to_back")
        return [self.op_call({"op": "call", "id": c["id"], "alphas": c["alphas"]}, pre=r) for c, r in pend]

    def op_call(self, op, pre=None):
        o = self.objs.get(op["id"])
        if o is None or len(op["alphas"]) != len(o["hist"]):
            return "noop"
        pyhf, ctx = self.pyhf, self.ctx
        tl = pyhf.tensorlib
        code, prec = o["code"], self.reg[1]
        eps = core.EPS[prec]
        ftype = np.float64 if prec == "64b" else np.float32
        al = np.asarray(op["alphas"], dtype=np.float64).astype(ftype).astype(np.float64)  # rounded to the working precision
        hist = np.asarray(o["hist"], dtype=np.float64).astype(ftype).astype(np.float64)
        shape = al.shape
        sig0 = {"code": str(code)}

        def call(f):
            return np.asarray(tl.tolist(f(tl.astensor(al))), dtype=np.float64)

        def call_reusing_buffer(f):
            # a parameter scan that updates ONE tensor object in place and hands it in again (numpy / pytorch)
            buf = o.get("buf")
            if buf is None or tuple(tl.shape(buf)) != shape or o.get("buf_reg") != self.reg:
                buf = tl.astensor(al)
            elif self.reg[0] == "numpy":
                buf[...] = al
                ctx.probe("alpha_buffer_reused")
            elif self.reg[0] == "pytorch":
                import torch

                buf.copy_(torch.as_tensor(al, dtype=buf.dtype))
                ctx.probe("alpha_buffer_reused")
            else:
                buf = tl.astensor(al)     # immutable tensors: a new object every time
            o["buf"], o["buf_reg"] = buf, self.reg
            return np.asarray(tl.tolist(f(buf)), dtype=np.float64)

        try:
            if pre is None and op.get("reuse"):
                got = call_reusing_buffer(o["obj"])
            elif pre is None:
                got = call(o["obj"])
            elif pre[0] == "exc":
                raise pre[1]
            else:
                got = pre[1]
        except Exception as e:
            ctx.fail("call_ok", dict(sig0, cls="raises"), f"code{code} call with shape {shape} after last shape {o['last_shape']} raised {type(e).__name__}: {e}; backend={self.reg}")
            o["last_shape"] = shape
            return "raised"
        self._a0 = o["kw"].get("alpha0", 1.0)
        regimes = sorted({self._regime(a) for a in al.ravel()})
        for r in regimes:
            ctx.probe("hit_" + ("breakpoint_" + r if r in ("plus1", "minus1") else r))
        nontriv = False
        if o["last_shape"] is not None and o["last_shape"] != shape:
            ctx.probe("call_after_shape_change")
            nontriv = True
        if o["switches"]:
            ctx.probe("call_after_switch")
            nontriv = True
        if nontriv:
            ctx.mark_nontrivial([str(code), self.reg, o["last_shape"], shape, min(o["switches"], 3), regimes])
        ctx.state([str(code), self.reg, o["last_shape"], shape, min(o["switches"], 2), self._a0])
        # 1. history independence ------------------------------------------------
        fresh = pyhf.interpolators.get(code)(o["hist"], **o["kw"])
        want = call(fresh)
        ok, idx, why = core.ulp_close(got, want, 8, eps, atol=1e-300)
        ctx.check(ok, "history", dict(sig0, cls="history"),
                  lambda: f"code{code}: result depends on history: last shape {o['last_shape']}, now {shape}, switches survived {o['switches']}, backend={self.reg}: {why} at {idx}")
        # 2. reference model -------------------------------------------------------
        a0 = o["kw"].get("alpha0", 1.0)
        self._a0 = a0
        if a0 != 1.0:
            ctx.probe("code4_nondefault_alpha0")
        ref = (lambda dn, nom, up, a: R.code4(dn, nom, up, a, alpha0=a0)) if code == 4 else R.REF[code]
        exp_shape = (hist.shape[0], hist.shape[1], al.shape[1], hist.shape[3])
        ctx.check(got.shape == exp_shape, "formula", dict(sig0, cls="shape"), f"shape {got.shape} expected {exp_shape}")
        if got.shape == exp_shape:
            self._cmp_ref(got, ref, hist, al, eps, sig0, "fast", code)
        # 3. fast = slow ------------------------------------------------------------
        try:
            slow = np.asarray(tl.tolist(pyhf.interpolators.get(code, do_tensorized_calc=False)(o["hist"], **o["kw"])(tl.astensor(al))), dtype=np.float64)
        except OverflowError as e:
            # the scalar implementation works in Python floats: where the formula itself leaves the double range it
            # raises instead of returning inf.  Only there; anywhere else an OverflowError is a disagreement.
            def overflows(s_, a_, h_, b_):
                try:
                    ref(float(hist[s_, h_, 0, b_]), float(hist[s_, h_, 1, b_]), float(hist[s_, h_, 2, b_]), float(a_))
                    return False
                except OverflowError:
                    return True

            if any(overflows(s_, a_, h_, b_) for s_ in range(hist.shape[0]) for a_ in al[s_] for h_ in range(hist.shape[1]) for b_ in range(hist.shape[3])):
                ctx.probe("slow_overflow_beyond_double_range")
            else:
                ctx.fail("fast_slow", dict(sig0, cls="slow_raises"), f"slow code{code} raised OverflowError: {e}")
            slow = None
        except Exception as e:
            ctx.fail("fast_slow", dict(sig0, cls="slow_raises"), f"slow code{code} raised {type(e).__name__}: {e}")
            slow = None
        if slow is not None and slow.shape == exp_shape:
            self._cmp_ref(slow, ref, hist, al, eps, sig0, "slow", code)
        o["last_shape"] = shape
        o["switches"] = 0
        o["ncalls"] += 1
        return core.fhex(got)

    def _cmp_ref(self, got, ref, hist, al, eps, sig0, which, code):
        ctx = self.ctx
        ns, nh, _, nb = hist.shape
        for s in range(ns):
            for a_i, a in enumerate(al[s]):
                for h in range(nh):
                    for b in range(nb):
                        dn, nom, up = hist[s, h, 0, b], hist[s, h, 1, b], hist[s, h, 2, b]
                        g = got[s, h, a_i, b]
                        ctx.c.oracle_evals["formula_points"] += 1
                        try:
                            v, scale = ref(float(dn), float(nom), float(up), float(a))
                        except OverflowError:
                            # beyond the double range: the only correct answer is +inf (ratios are positive)
                            ctx.probe("double_overflow_region")
                            if not (np.isinf(g) and g > 0):
                                ctx.fail("formula" if which == "fast" else "fast_slow", dict(sig0, cls=which + "_vs_formula", regime=self._regime(a)),
                                         f"{which} code{code} at alpha={a!r} (down,nom,up)=({dn},{nom},{up}): got {g!r}, the formula overflows to +inf; backend={self.reg}")
                                return
                            continue
                        tol = 64 * eps * scale + (2e-38 if eps > 1e-10 else 1e-300)   # plus the smallest normal number: underflow
                        if eps > 1e-10 and abs(v) > 1e37:
                            # beyond the float32 range: overflow to inf (or a finite value within tolerance) is the only
                            # thing single precision can do
                            ctx.probe("float32_overflow_region")
                            if np.isinf(g) and (g > 0) == (v > 0):
                                continue
                        if not (abs(g - v) <= tol):
                            ctx.fail("formula" if which == "fast" else "fast_slow",
                                     dict(sig0, cls=which + "_vs_formula", regime=self._regime(a)),
                                     f"{which} code{code} at alpha={a!r} (down,nom,up)=({dn},{nom},{up}): got {g!r}, published formula gives {v!r} (tol {tol:.3g}); backend={self.reg}")
                            return
