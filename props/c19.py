"""C19 - the command line returns what the library returns.

World: a scratch working directory whose files are products of earlier
invocations (possibly torn, missing or schema-invalid), standard streams, an
I/O fault layer on the output path, and the process boundary (each invocation
runs after a simulated restart; a sample also as a real subprocess).
Reference: the corresponding library call on the same bytes after the same
restart, with the documented meaning of every option applied by hand.
"""
from __future__ import annotations

import copy
import json
import os
import random
import shutil
import subprocess

import numpy as np

from sim import core, faults
from sim.gen import patchsets as G
from sim.gen import specs

ID = "C19"
LEVEL = "exploration"
TIERS = {
    "quick": {"segments": 640, "wall": 130, "min_budget": 90, "subprocess_every": 0},
    "thorough": {"segments": 8000, "wall": 1500, "min_budget": 600, "subprocess_every": 30},
}
SEGMENT_TIMEOUT = 900
SAMPLE_MAXOPS = 8
RULE = (
    "segment = seeded shell session: write ops put documents on the scratch disk, each cli op is one pyhf invocation "
    "(subcommand + options drawn from its option space, input by path or stdin, output to file and/or stdout) after a "
    "simulated restart, corrupt ops tear/remove/invalidate files between invocations, output faults hit the write path; "
    "non-trivial = an invocation with at least two non-default options, or reading a product of an earlier invocation, or "
    "under an injected fault; distinct = different (subcommand, sorted option names, input route, output route, fault kind, "
    "exit class) tuples"
)
STATE_MEASURE = "abstract state per invocation = (subcommand, sorted non-default option names, input route, output route, exit class)"
ASSUMPTIONS = [
    "click CliRunner after a canonical reset (default backend/optimizer, empty file cache) is a faithful model of one process per command; validated against real subprocesses on a sample in the thorough tier",
    "the reference re-implements the documented meaning of each option by hand (set_backend(name, optimizer(**optconf)), ws.model(measurement_name, patches), hypotest(test_poi, test_stat, calctype), Workspace.prune/rename/combine/sorted, utils.digest, PatchSet[...]/apply/verify, readxml.parse/writexml)",
    "numbers compared at 1e-9 relative (same code path expected bit-identical)",
    "toy-based CLs: the CLI cannot set ntoys, so ToyCalculator's default is shadowed to 30 symmetrically for CLI and reference and the RNG is reseeded identically",
    "inspect --measurement is not judged (its intended effect is not documented anywhere)",
]
COMPONENTS = {
    "real": ["pyhf.cli (all subcommands) through click", "pyhf library calls as reference", "real files in a scratch directory", "real subprocess (thorough tier sample)"],
    "stub": ["process restart (canonical reset)", "fault layer over open/click.open_file/click.echo/makedirs as seen from pyhf.cli modules", "document corruption"],
}
EXPECTED_PROBES = ["exit_agree_success", "exit_agree_failure", "stdout_vs_file_identical", "stdin_vs_path_identical", "reads_product_of_earlier_cmd", "fault_output_io_error", "input_torn", "input_missing"]

BACKEND_ALIASES = {"numpy": "numpy", "np": "numpy", "pytorch": "pytorch", "torch": "pytorch", "tensorflow": "tensorflow", "tf": "tensorflow", "jax": "jax"}


# ---------------------------------------------------------------------------
# generation
# ---------------------------------------------------------------------------

def _names(ws):
    ch = [c["name"] for c in ws["channels"]]
    sm = sorted({s["name"] for c in ws["channels"] for s in c["samples"]})
    md = sorted({m["name"] for c in ws["channels"] for s in c["samples"] for m in s["modifiers"]})
    mt = sorted({m["type"] for c in ws["channels"] for s in c["samples"] for m in s["modifiers"]})
    ms = [m["name"] for m in ws["measurements"]]
    return ch, sm, md, mt, ms


def _gen_cli(rng, cfg, files, wsdocs, nout):
    """one cli op; files: name -> kind as predicted by the generator."""
    wsfiles = [f for f, k in files.items() if k == "ws"]
    psfiles = [f for f, k in files.items() if k == "patchset"]
    patchfiles = [f for f, k in files.items() if k == "patch"]
    xmls = [f for f, k in files.items() if k == "xmldir"]
    w = {"cls": 2.0 * cfg["infer_w"], "fit": 2.0 * cfg["infer_w"], "inspect": 1, "prune": 1.5, "rename": 1.5, "combine": 1.5 if len(wsfiles) > 1 else 0,
         "sort": 1, "digest": 1.2, "ps_extract": 1.2 if psfiles else 0, "ps_apply": 1.2 if psfiles else 0, "ps_verify": 1 if psfiles else 0,
         "ps_inspect": 0.6 if psfiles else 0, "json2xml": 0.8 * cfg["xml_w"], "xml2json": 1.0 * cfg["xml_w"] if xmls else 0}
    cmds = list(w)
    cmd = rng.choices(cmds, weights=[w[c] for c in cmds])[0]
    wsf = rng.choice(wsfiles)
    doc = wsdocs.get(wsf) or next(iter(wsdocs.values()))
    ch, sm, md, mt, ms = _names(doc)
    op = {"op": "cli", "cmd": cmd, "via": rng.choice(["path", "path", "stdin"]), "out": f"o{nout}.json" if rng.random() < 0.5 else None,
          "both_outputs": rng.random() < (0.25 if cmd in ("cls", "fit") else 0.7), "both_inputs": rng.random() < (0.15 if cmd in ("cls", "fit") else 0.5)}
    pick = lambda pool, bad: (rng.choice(pool) if pool and rng.random() > 0.08 else bad)  # noqa: E731
    if cmd in ("cls", "fit"):
        op["ws"] = wsf
        op["measurement"] = pick(ms, "no_such_measurement") if rng.random() < 0.6 else None
        op["patches"] = rng.sample(patchfiles, min(len(patchfiles), rng.choice([0, 0, 1, 2]))) if patchfiles and wsf in cfg["orig_ws"] else []
        if op["patches"] and rng.random() < 0.3:
            op["patch_stdin"] = rng.randrange(len(op["patches"]))
        be = rng.choices(["numpy", "np", "jax", "pytorch", "torch", "tensorflow", "tf"], weights=[6, 2, cfg["be_w"], cfg["be_w"], cfg["be_w"] / 2, cfg["be_w"] / 2, cfg["be_w"] / 2])[0]
        op["backend"] = be if rng.random() < 0.7 or be not in ("numpy",) else None
        op["optimizer"] = rng.choice([None, "scipy", "minuit"])
        oc = {}
        if rng.random() < 0.4:
            opt = op["optimizer"] or "scipy"
            if opt == "scipy":
                oc = rng.choice([{"maxiter": rng.choice([1, 2, 5000])}, {"maxiter": 5000}, {"tolerance": rng.choice([1e-2, 1e-9])}, {"maxiter": 3000, "tolerance": 1e-6},
                                 {"verbose": 0}, {"no_such_option": 3}])
            else:
                oc = rng.choice([{"strategy": rng.choice([0, 1, 2])}, {"tolerance": rng.choice([0.01, 1.0])}, {"errordef": 0.5}, {"maxiter": rng.choice([2, 5000])},
                                 {"steps": 500}])
        op["optconf"] = oc
        # repeated --optconf with the same key: the later one wins (options are merged in order)
        if oc and rng.random() < 0.45:
            k0 = next(iter(oc))
            # a value whose effect differs visibly from the one that must win
            alt = {"maxiter": 1 if oc[k0] > 10 else 4000, "tolerance": 1e-2 if oc[k0] < 1e-3 else 1e-8, "strategy": 2 - oc.get("strategy", 0) if k0 == "strategy" else 0,
                   "errordef": 1.0, "steps": 800, "verbose": 0, "no_such_option": 1}.get(k0, 1)
            op["optconf_first"] = [[k0, alt]]     # given on the command line BEFORE the entries of optconf
        if cmd == "cls":
            op["test_poi"] = rng.choice([None, 1.0, 0.5, 2.0, 0.0, round(rng.uniform(0.1, 3), 3)])
            op["test_stat"] = rng.choice([None, "q", "qtilde"])
            op["calctype"] = rng.choices([None, "asymptotics", "toybased"], weights=[5, 3, 0.5 if BACKEND_ALIASES.get(be) == "numpy" else 0])[0]
            op["seed"] = rng.randrange(1 << 30)
            if op["calctype"] == "toybased" and op["optimizer"] == "minuit":
                # 60 toy fits under MIGRAD with an unusual configuration can take unbounded time (found by a soak: a
                # segment with strategy=0 at mu=0 ran into the 15-minute watchdog): toys run under the default optimiser
                op["optimizer"] = None
                op["optconf"] = {}
                op.pop("optconf_first", None)
        else:
            op["value"] = rng.random() < 0.5
    elif cmd == "inspect":
        op["ws"] = wsf
    elif cmd == "prune":
        op["ws"] = wsf
        # every selection may be given several times
        op["channel"] = [pick(ch, "nochan") for _ in range(rng.choice([1, 1, 2]))][: max(0, len(ch) - 1)] if rng.random() < 0.3 and len(ch) > 1 else []
        op["sample"] = [pick(sm, "nosample") for _ in range(rng.choice([1, 1, 2]))] if rng.random() < 0.3 else []
        op["modifier"] = [pick(md, "nomod") for _ in range(rng.choice([0, 1, 1, 2, 3]))]
        op["modifier_type"] = rng.sample(mt, min(len(mt), rng.choice([1, 1, 2]))) if rng.random() < 0.3 else []
        op["measurement"] = [pick(ms, "nomeas")] if rng.random() < 0.3 and len(ms) > 1 else []
    elif cmd == "rename":
        op["ws"] = wsf
        def pairs(pool, bad, new, p):
            if rng.random() >= p:
                return []
            out = [[pick(pool, bad), new]]
            if len(pool) > 1 and rng.random() < 0.35:
                # a second pair of the same kind; sometimes a swap-like chain (the new name of the first is an old name)
                other = rng.choice([x for x in pool if x != out[0][0]] or pool)
                out.append([other, rng.choice([new + "2", out[0][0]])])
            return out

        op["channel"] = pairs(ch, "nochan", "renamed_ch", 0.4)
        op["sample"] = pairs(sm, "nosample", "renamed_sample", 0.4)
        op["modifier"] = pairs(md, "nomod", "renamed_mod", 0.5)
        op["measurement"] = pairs(ms, "nomeas", "renamed_meas", 0.4)
    elif cmd == "combine":
        op["ws"] = wsf
        op["ws2"] = rng.choice([f for f in wsfiles if f != wsf] or wsfiles)
        op["join"] = rng.choice([None, "none", "outer", "left outer", "right outer"])
        op["merge_channels"] = rng.choice([None, True, False])
        op["via2"] = "path"
    elif cmd == "sort":
        op["ws"] = wsf
    elif cmd == "digest":
        op["ws"] = wsf
        op["algorithm"] = rng.choice([[], ["md5"], ["sha256", "md5"], ["sha512"], ["sha1", "blake2b"], ["nosuchalg"]])
        op["json"] = rng.choice([None, True, False])
        op["out"] = None
    elif cmd.startswith("ps_"):
        psf = rng.choice(psfiles)
        op["patchset"] = psf
        op["ws"] = cfg["ps_ws"].get(psf, wsf) if rng.random() < 0.85 else wsf
        psnames = cfg["ps_names"].get(psf, ["x"])
        if cmd in ("ps_extract", "ps_apply"):
            op["name"] = pick(psnames, "no_such_patch") if rng.random() < 0.92 else None
        if cmd == "ps_extract":
            op["with_metadata"] = rng.choice([None, True, False])
        if cmd in ("ps_verify", "ps_inspect"):
            op["out"] = None
    elif cmd == "json2xml":
        op["ws"] = wsf
        op["outdir"] = f"x{nout}"
        op["specroot"] = rng.choice([None, "config", "xmls"])
        op["dataroot"] = rng.choice([None, "data", "hists"])
        op["resultprefix"] = rng.choice([None, "FitConfig", "pfx"])
        # --patch may be repeated: the patches apply one after the other to the document read
        op["patches"] = rng.sample(patchfiles, min(len(patchfiles), rng.choice([0, 1, 2, 2]))) if patchfiles and wsf in cfg["orig_ws"] else []
        if op["patches"] and rng.random() < 0.3:
            op["patch_stdin"] = rng.randrange(len(op["patches"]))
        op["out"] = None
        op["both_outputs"] = False
    elif cmd == "xml2json":
        op["xmldir"] = rng.choice(xmls)
        op["via"] = "path"
        op["both_inputs"] = False
        # -v host:mountpoint pairs; with nested mount points the FIRST matching pair wins, so their order is input
        op["mounts"] = rng.choice([None, None, "shallow_first", "deep_first"])
    return op


def gen(rng: random.Random, k: int, tier: str) -> dict:
    deep = tier == "thorough" and k % 3 == 2   # thorough: every third segment is a three times longer history
    cfg = {"fault_rate": rng.choice([0.0, 0.15, 0.3, 0.45]), "infer_w": rng.choice([0.0, 0.5, 1.0]), "be_w": rng.choice([0.0, 0.0, 0.5, 1.5]),
           "xml_w": rng.choice([0.0, 1.0]), "len": rng.randint(4, 12) * (3 if deep else 1), "orig_ws": [], "ps_ws": {}, "ps_names": {}}
    ops, files, wsdocs = [], {}, {}
    nws = rng.randint(1, 2)
    for i in range(nws):
        # names are free text in the schema: a third of the workspaces carry non-ASCII names
        pfx = (f"w{i}_" if i else "") + (rng.choice(["μ_", "σé_", "ß"]) if rng.random() < 0.33 else "")
        ws = specs.gen_workspace(rng, max_channels=2, max_samples=2, max_bins=2, n_meas=(1, 3), exportable=True, name_prefix=pfx)
        name = f"ws{i}.json"
        ops.append({"op": "write", "name": name, "kind": "ws", "doc": ws})
        files[name] = "ws"
        wsdocs[name] = ws
        cfg["orig_ws"].append(name)
        if rng.random() < 0.7:
            ps, _ = G.gen_patchset(rng, ws)
            psn = f"ps{i}.json"
            ops.append({"op": "write", "name": psn, "kind": "patchset", "doc": ps})
            files[psn] = "patchset"
            cfg["ps_ws"][psn] = name
            cfg["ps_names"][psn] = [p["metadata"]["name"] for p in ps["patches"]]
        if i == 0:
            for j in range(rng.randint(0, 2)):
                pn = f"patch{j}.json"
                ops.append({"op": "write", "name": pn, "kind": "patch", "doc": G.gen_patch_ops(rng, ws, rng.randint(1, 2), channels_only=rng.random() < 0.6)})
                files[pn] = "patch"
    nout = 0
    for _ in range(cfg["len"]):
        if rng.random() < cfg["fault_rate"] * 0.6:
            tgt = rng.choice(sorted(f for f, k in files.items() if k != "xmldir"))
            ops.append({"op": "corrupt", "name": tgt, "how": rng.choice(["truncate", "delete", "schema_invalid", "garbage"]), "frac": round(rng.uniform(0.1, 0.9), 2)})
        op = _gen_cli(rng, cfg, files, wsdocs, nout)
        nout += 1
        sub_draw = rng.random()   # drawn in every tier so that segment k is the same history everywhere
        if rng.random() < cfg["fault_rate"]:
            op["fault"] = {"kind": rng.choice(["io_error", "io_error", "crash"]), "at": rng.randint(1, 4), "err": rng.choice(["ENOSPC", "EIO", "EACCES"])}
        elif tier == "thorough" and sub_draw < 1.0 / 30 and op.get("backend") in (None, "numpy", "np") and op.get("calctype") != "toybased":
            op["subprocess"] = True
        elif rng.random() < cfg["fault_rate"] * 0.3 and op.get("out"):
            op["out"] = "nodir/" + op["out"]
        ops.append(op)
        # products of this invocation become inputs of later ones
        if op.get("out") and not op["out"].startswith("nodir/"):
            kind = {"prune": "ws", "rename": "ws", "combine": "ws", "sort": "ws", "ps_apply": "ws", "ps_extract": "patch" if not op.get("with_metadata") else "other",
                    "xml2json": "ws"}.get(op["cmd"])
            if kind in ("ws", "patch"):
                files[op["out"]] = kind
        if op["cmd"] == "json2xml":
            files[op["outdir"]] = "xmldir"
            cfg.setdefault("xml_prefix", {})[op["outdir"]] = op.get("resultprefix") or "FitConfig"
            cfg.setdefault("xml_specroot", {})[op["outdir"]] = op.get("specroot") or "config"
    return {"cfg": cfg, "ops": ops}


def simplify(op):
    if op["op"] == "cli":
        for k, dflt in (("backend", None), ("optimizer", None), ("optconf_first", []), ("optconf", {}), ("patches", []), ("measurement", None), ("both_outputs", False), ("both_inputs", False),
                        ("test_stat", None), ("calctype", None), ("fault", None)):
            if k in op and op[k] not in (dflt, None, [], {}) and not (k == "measurement" and isinstance(op[k], list)):
                yield dict(op, **{k: dflt})
        if op.get("via") == "stdin":
            yield dict(op, via="path")
    elif op["op"] == "write" and op["kind"] == "ws":
        return


def dedupe_key(sig):
    return [sig.get("cmd"), sig.get("cls"), sig.get("what")]


# ---------------------------------------------------------------------------
# execution
# ---------------------------------------------------------------------------

class World:
    def __init__(self, scratch):
        import pyhf
        import pyhf.readxml
        import pyhf.writexml
        from click.testing import CliRunner
        from pyhf.cli import cli as pyhf_cli
        import logging

        self.pyhf, self.cli = pyhf, pyhf_cli
        self.runner = CliRunner()
        self.base = scratch
        self.nseg = 0
        self.ninv = 0
        self.faults = faults.IOFaults()
        faults.install(self.faults)
        logging.getLogger("pyhf").setLevel(logging.CRITICAL)
        # the CLI cannot choose the number of toys: shadow the default symmetrically (declared stub)
        TC = pyhf.infer.calculators.ToyCalculator
        if not getattr(TC, "_verif_ntoys", False):
            orig = TC.__init__

            def init(self_, *a, **k):
                k.setdefault("ntoys", 30)
                k.setdefault("track_progress", False)
                return orig(self_, *a, **k)

            TC.__init__ = init
            TC._verif_ntoys = True

    def _restart(self):
        pyhf = self.pyhf
        pyhf.readxml.clear_filecache()
        pyhf.writexml._ROOT_DATA_FILE = None
        pyhf.set_backend("numpy", "scipy", precision="64b")
        os.chdir(self.root)

    def begin(self, ctx, cfg):
        self.ctx, self.cfg = ctx, cfg
        self.nseg += 1
        self.root = os.path.join(self.base, f"seg{self.nseg}")
        os.makedirs(self.root, exist_ok=True)
        self.products = set()
        self.corrupted = {}
        self._restart()

    def end(self):
        os.chdir(self.base)
        self.pyhf.readxml.clear_filecache()
        shutil.rmtree(self.root, ignore_errors=True)
        try:
            self.pyhf.set_backend("numpy", "scipy")
        except Exception:
            pass

    def run(self, op):
        import warnings

        with warnings.catch_warnings():
            warnings.simplefilter("ignore")
            return getattr(self, "op_" + op["op"])(op)

    def _p(self, name):
        return os.path.join(self.root, name)

    def op_write(self, op):
        with open(self._p(op["name"]), "w") as f:
            json.dump(op["doc"], f)
        return op["kind"]

    def op_corrupt(self, op):
        p = self._p(op["name"])
        if not os.path.isfile(p):
            return "noop"
        how = op["how"]
        if how == "delete":
            os.unlink(p)
        elif how == "truncate":
            size = os.path.getsize(p)
            with open(p, "r+b") as f:
                f.truncate(int(size * op["frac"]))
        elif how == "garbage":
            with open(p, "w") as f:
                f.write("{not json")
        else:
            try:
                with open(p) as f:
                    doc = json.load(f)
                if isinstance(doc, dict):
                    doc["unexpected_top_level_key"] = 1
                    doc.pop("version", None)
                else:
                    doc = {"not": "a patch"}
                with open(p, "w") as f:
                    json.dump(doc, f)
            except ValueError:
                return "noop"
        self.corrupted[op["name"]] = how
        self.ctx.fault("corrupt_" + how)
        return how

    # -- argv ---------------------------------------------------------------------
    def _argv(self, op, via, out):
        cmd = op["cmd"]
        a = []
        stdin = None

        def inp(name, route):
            nonlocal stdin
            if route == "stdin":
                try:
                    with open(self._p(name)) as f:
                        stdin = f.read()
                except OSError:
                    stdin = ""
                return "-"
            return name

        if cmd in ("cls", "fit"):
            a = [cmd, inp(op["ws"], via)]
            if op.get("measurement") is not None:
                a += ["--measurement", op["measurement"]]
            for i, p in enumerate(op.get("patches", [])):
                # '-p -' reads that patch from standard input (only possible when the workspace comes from a file)
                a += ["-p", inp(p, "stdin") if (op.get("patch_stdin") == i and via == "path") else p]
            if op.get("backend"):
                a += ["--backend", op["backend"]]
            if op.get("optimizer"):
                a += ["--optimizer", op["optimizer"]]
            for k, v in (op.get("optconf_first") or []):
                a += ["--optconf", f"{k}={v}"]
            for k, v in (op.get("optconf") or {}).items():
                a += ["--optconf", f"{k}={v}"]
            if cmd == "cls":
                if op.get("test_poi") is not None:
                    a += ["--test-poi", str(op["test_poi"])]
                if op.get("test_stat"):
                    a += ["--test-stat", op["test_stat"]]
                if op.get("calctype"):
                    a += ["--calctype", op["calctype"]]
            elif op.get("value"):
                a += ["--value"]
        elif cmd in ("inspect", "sort"):
            a = [cmd, inp(op["ws"], via)]
        elif cmd == "prune":
            a = [cmd, inp(op["ws"], via)]
            for flag, key in (("-c", "channel"), ("-s", "sample"), ("-m", "modifier"), ("-t", "modifier_type"), ("--measurement", "measurement")):
                for v in op.get(key, []):
                    a += [flag, v]
        elif cmd == "rename":
            a = [cmd, inp(op["ws"], via)]
            for flag, key in (("-c", "channel"), ("-s", "sample"), ("-m", "modifier"), ("--measurement", "measurement")):
                for x, y in op.get(key, []):
                    a += [flag, x, y]
        elif cmd == "combine":
            a = [cmd, inp(op["ws"], via), op["ws2"]]
            if op.get("join"):
                a += ["--join", op["join"]]
            if op.get("merge_channels") is not None:
                a += ["--merge-channels" if op["merge_channels"] else "--no-merge-channels"]
        elif cmd == "digest":
            a = [cmd, inp(op["ws"], via)]
            for alg in op.get("algorithm", []):
                a += ["-a", alg]
            if op.get("json") is not None:
                a += ["--json" if op["json"] else "--plaintext"]
        elif cmd == "ps_extract":
            a = ["patchset", "extract", inp(op["patchset"], via)]
            if op.get("name") is not None:
                a += ["--name", op["name"]]
            if op.get("with_metadata") is not None:
                a += ["--with-metadata" if op["with_metadata"] else "--without-metadata"]
        elif cmd == "ps_apply":
            a = ["patchset", "apply", inp(op["ws"], via), op["patchset"]]
            if op.get("name") is not None:
                a += ["--name", op["name"]]
        elif cmd == "ps_verify":
            a = ["patchset", "verify", inp(op["ws"], via), op["patchset"]]
        elif cmd == "ps_inspect":
            a = ["patchset", "inspect", inp(op["patchset"], via)]
        elif cmd == "json2xml":
            a = [cmd, inp(op["ws"], via), "--output-dir", op["outdir"]]
            for i, p in enumerate(op.get("patches", [])):
                a += ["-p", inp(p, "stdin") if (op.get("patch_stdin") == i and via == "path") else p]
            for flag, key in (("--specroot", "specroot"), ("--dataroot", "dataroot"), ("--resultprefix", "resultprefix")):
                if op.get(key):
                    a += [flag, op[key]]
        elif cmd == "xml2json":
            pfx = (self.cfg.get("xml_prefix") or {}).get(op["xmldir"], "FitConfig")
            a = [cmd, os.path.join(op["xmldir"], f"{pfx}.xml"), "--basedir", ".", "--hide-progress"]
            for host, mp in self._mounts(op):
                a += ["-v", f"{host}:{mp}"]
        if out and cmd not in ("digest", "ps_verify", "ps_inspect", "json2xml"):
            a += ["--output-file", out]
        return a, stdin

    def _mounts(self, op):
        """(host, mount point) pairs of an xml2json op, in the order the user gives them.  The shallow mount point (the
        whole XML directory) is served from an empty directory, the deeper one (its spec directory) from where the
        files really are: only the order decides whether the channel files are found."""
        if not op.get("mounts"):
            return []
        sr = (self.cfg.get("xml_specroot") or {}).get(op["xmldir"], "config")
        os.makedirs(self._p("emptymnt"), exist_ok=True)
        pairs = [("emptymnt", op["xmldir"]), (os.path.join(op["xmldir"], sr), os.path.join(op["xmldir"], sr))]
        return pairs if op["mounts"] == "shallow_first" else pairs[::-1]

    # -- reference: the library on the same bytes -----------------------------------
    def _load(self, name):
        with open(self._p(name), encoding="utf-8") as f:
            return json.load(f)

    def _reference(self, op):
        pyhf = self.pyhf
        cmd = op["cmd"]
        if cmd in ("cls", "fit"):
            bname = BACKEND_ALIASES[op.get("backend") or "numpy"]
            oname = op.get("optimizer") or "scipy"

            def setup():
                if bname != "numpy":
                    pyhf.set_backend(bname, precision="64b")
                optimizer = getattr(pyhf.optimize, f"{oname}_optimizer")(**(op.get("optconf") or {}))
                pyhf.set_backend(pyhf.tensorlib, optimizer)

            if cmd == "fit":
                setup()
            spec = self._load(op["ws"])
            ws = pyhf.Workspace(spec)
            patches = [self._load(p) for p in op.get("patches", [])]
            model = ws.model(measurement_name=op.get("measurement"), patches=patches)
            if cmd == "cls":
                setup()
            data = ws.data(model)
            tl = pyhf.tensorlib
            if cmd == "cls":
                kw = {"test_stat": op.get("test_stat") or "qtilde", "calctype": op.get("calctype") or "asymptotics"}
                r = pyhf.infer.hypotest(op["test_poi"] if op.get("test_poi") is not None else 1.0, data, model, return_expected_set=True, **kw)
                return {"CLs_obs": tl.tolist(r[0]), "CLs_exp": [tl.tolist(t) for t in r[-1]]}
            fr = pyhf.infer.mle.fit(data, model, return_fitted_val=bool(op.get("value")))
            pars = fr[0] if op.get("value") else fr
            out = {"mle_parameters": {n: tl.tolist(pars[model.config.par_slice(n)]) for n in model.config.par_order}}
            if op.get("value"):
                out["twice_nll"] = tl.tolist(fr[-1])
            return out
        if cmd == "inspect":
            ws = pyhf.Workspace(self._load(op["ws"]))
            model = ws.model()
            descr = {"unconstrained": "unconstrained", "constrained_by_normal": "constrained_by_normal", "constrained_by_poisson": "constrained_by_poisson"}
            params = sorted((n, descr[type(model.config.param_set(n)).__name__]) for n in model.config.par_order)
            return {"samples": ws.samples, "channels": [[c, ws.channel_nbins[c]] for c in ws.channels], "modifiers": dict(ws.modifiers),
                    "parameters": [list(p) for p in params],
                    "systematics": [[p[0], p[1], [m[1] for m in ws.modifiers if m[0] == p[0]]] for p in params],
                    "measurements": [[m["name"], m["config"]["poi"], [p["name"] for p in m["config"]["parameters"]]] for m in ws["measurements"]]}
        if cmd == "prune":
            ws = pyhf.Workspace(self._load(op["ws"]))
            return dict(ws.prune(channels=op.get("channel", []), samples=op.get("sample", []), modifiers=op.get("modifier", []),
                                 modifier_types=op.get("modifier_type", []), measurements=op.get("measurement", [])))
        if cmd == "rename":
            ws = pyhf.Workspace(self._load(op["ws"]))
            return dict(ws.rename(channels=dict(op.get("channel", [])), samples=dict(op.get("sample", [])), modifiers=dict(op.get("modifier", [])),
                                  measurements=dict(op.get("measurement", []))))
        if cmd == "combine":
            w1, w2 = pyhf.Workspace(self._load(op["ws"])), pyhf.Workspace(self._load(op["ws2"]))
            return dict(pyhf.Workspace.combine(w1, w2, join=op.get("join") or "none", merge_channels=bool(op.get("merge_channels"))))
        if cmd == "sort":
            return dict(pyhf.Workspace.sorted(pyhf.Workspace(self._load(op["ws"]))))
        if cmd == "digest":
            ws = pyhf.Workspace(self._load(op["ws"]))
            algs = op.get("algorithm") or ["sha256"]
            return {a: pyhf.utils.digest(ws, algorithm=a) for a in algs}
        if cmd == "ps_extract":
            ps = pyhf.PatchSet(self._load(op["patchset"]))
            patch = ps[op.get("name")]
            if op.get("with_metadata"):
                md = dict(patch.metadata)
                md.update(ps.metadata)
                return {"metadata": md, "patch": patch.patch}
            return patch.patch
        if cmd == "ps_apply":
            ws = pyhf.Workspace(self._load(op["ws"]))
            ps = pyhf.PatchSet(self._load(op["patchset"]))
            return dict(ps.apply(ws, op.get("name")))
        if cmd == "ps_verify":
            ws = pyhf.Workspace(self._load(op["ws"]))
            pyhf.PatchSet(self._load(op["patchset"])).verify(ws)
            return "All good."
        if cmd == "ps_inspect":
            ps = pyhf.PatchSet(self._load(op["patchset"]))
            return [p.name for p in ps.patches]
        if cmd == "json2xml":
            from pathlib import Path

            spec = self._load(op["ws"])
            for p in op.get("patches", []):
                from sim.ref import jsonpatch_ref as jpr

                try:
                    spec = jpr.apply_patch(spec, self._load(p))    # independent RFC-6902 applier, one patch after the other
                except jpr.PatchError as e:
                    raise ValueError(f"patch does not apply: {e}")
            ref = Path(self._p(f"ref_{op['outdir']}"))
            sr, dr, pf = op.get("specroot") or "config", op.get("dataroot") or "data", op.get("resultprefix") or "FitConfig"
            os.makedirs(ref / sr, exist_ok=True)
            os.makedirs(ref / dr, exist_ok=True)
            xml = pyhf.writexml.writexml(spec, ref / sr, ref / dr, pf)
            with open(ref / f"{pf}.xml", "wb") as f:
                f.write(xml)
            # the library call is writexml; reading the product back is only how the two products are compared
            try:
                return pyhf.readxml.parse(ref / f"{pf}.xml", Path(self.root))
            except Exception as e:
                return {"__not_reimportable__": f"{type(e).__name__}: {str(e)[:200]}"}
        if cmd == "xml2json":
            from pathlib import Path

            pfx = (self.cfg.get("xml_prefix") or {}).get(op["xmldir"], "FitConfig")
            mounts = [(Path(self._p(h)).resolve(), Path(m)) for h, m in self._mounts(op)]
            if mounts and not os.path.isdir(mounts[-1][0]) or mounts and not os.path.isdir(mounts[0][0]):
                raise FileNotFoundError("mount host directory does not exist")   # click refuses such an option
            return pyhf.readxml.parse(Path(self._p(op["xmldir"])) / f"{pfx}.xml", Path(self.root), mounts=mounts or None)
        raise core.HarnessError(f"no reference for {cmd}")

    # -- comparison --------------------------------------------------------------------
    def _same(self, a, b, rel=1e-9):
        if isinstance(a, dict) and isinstance(b, dict):
            return set(a) == set(b) and all(self._same(a[k], b[k], rel) for k in a)
        if isinstance(a, (list, tuple)) and isinstance(b, (list, tuple)):
            return len(a) == len(b) and all(self._same(x, y, rel) for x, y in zip(a, b))
        if isinstance(a, bool) or isinstance(b, bool) or a is None or b is None or isinstance(a, str) or isinstance(b, str):
            return a == b
        if isinstance(a, (int, float)) and isinstance(b, (int, float)):
            if a != a and b != b:
                return True
            return abs(a - b) <= rel * max(1.0, abs(a), abs(b))
        return a == b

    def _invoke(self, argv, stdin, fault=None, seed=None):
        self._restart()
        self.ninv += 1
        if seed is not None:
            np.random.seed(seed % (2**32))
        self.faults.reset_count()
        if fault:
            self.faults.arm(fault["kind"], fault["at"], fault.get("err", "EIO"))
        crashed = False
        try:
            r = self.runner.invoke(self.cli, argv, input=stdin, catch_exceptions=True)
            if isinstance(r.exception, core.SimCrash):
                crashed = True
        except core.SimCrash:
            crashed, r = True, None
        n, fired = self.faults.disarm()
        return r, crashed, fired

    def _parse_stdout(self, cmd, text):
        if cmd == "ps_verify":
            return text.strip()
        if cmd == "ps_inspect":
            lines = [l for l in text.splitlines() if l.strip()]
            return lines[2:] if len(lines) >= 2 else lines
        if cmd == "inspect":
            return text
        return json.loads(text)

    def op_cli(self, op):
        pyhf, ctx = self.pyhf, self.ctx
        cmd = op["cmd"]
        sig = {"cmd": cmd}
        fault = op.get("fault")
        out = op.get("out")
        # ---- reference -------------------------------------------------------
        self._restart()
        if op.get("calctype") == "toybased":
            np.random.seed(op["seed"] % (2**32))
        try:
            ref = ("ok", self._reference(op))
        except core.HarnessError:
            raise
        except Exception as e:
            ref = ("exc", e)
        snap = {}
        for key in ("ws", "ws2", "patchset"):
            if op.get(key) and os.path.isfile(self._p(op[key])):
                with open(self._p(op[key]), "rb") as f:
                    snap[op[key]] = f.read()
        # ---- the invocation ----------------------------------------------------
        if cmd == "json2xml":
            os.makedirs(self._p(op["outdir"]), exist_ok=True)   # --output-dir must exist (click.Path(exists=True))
        argv, stdin = self._argv(op, op["via"], out)
        r, crashed, fired = self._invoke(argv, stdin, fault, op.get("seed") if op.get("calctype") == "toybased" else None)
        nondef = [k for k in ("measurement", "patches", "backend", "optimizer", "optconf", "test_poi", "test_stat", "calctype", "value", "channel", "sample",
                              "modifier", "modifier_type", "join", "merge_channels", "algorithm", "json", "name", "with_metadata", "specroot", "dataroot",
                              "resultprefix") if op.get(k) not in (None, [], {}, False)]
        reads_product = any(op.get(k) in self.products for k in ("ws", "ws2", "patchset", "xmldir")) or any(p in self.products for p in op.get("patches", []))
        reads_corrupt = [self.corrupted[op[k]] for k in ("ws", "ws2", "patchset") if op.get(k) in self.corrupted]
        if reads_product:
            ctx.probe("reads_product_of_earlier_cmd")
        for h in reads_corrupt:
            ctx.probe({"truncate": "input_torn", "delete": "input_missing"}.get(h, "input_" + h))
        exit_code = None if r is None else r.exit_code
        exit_class = "crash" if crashed else ("ok" if exit_code == 0 else "fail")
        if len(nondef) >= 2 or reads_product or fault or reads_corrupt:
            ctx.mark_nontrivial([cmd, sorted(nondef), op["via"], bool(out), (fault or {}).get("kind"), exit_class, sorted(reads_corrupt)])
        ctx.state([cmd, sorted(nondef), op["via"], bool(out), exit_class])
        ctx.c.oracle_evals["exit_code"] += 1
        detail_ctx = f"argv={argv} via={op['via']} fault={fault} fired={fired}"
        if crashed:
            ctx.fault("crash_in_output")
            return "crashed"      # the process died: whatever it left on disk is input for later ops
        if fired:
            ctx.fault("fault_output_io_error")
            ctx.probe("fault_output_io_error")
            if exit_code == 0:
                ctx.probe("exit_zero_despite_io_error")   # judged below: must then have delivered the complete document
            else:
                return f"exit{exit_code}:io_error"
        if ref[0] == "exc":
            ctx.check(exit_code != 0, "exit_code", dict(sig, cls="exit", what="zero_but_library_raises"),
                      lambda: f"exit code 0 but the library call raises {type(ref[1]).__name__}: {str(ref[1])[:200]}; stdout={r.stdout[:200]!r}; {detail_ctx}")
            ctx.probe("exit_agree_failure")
            return f"exit{exit_code}"
        if exit_code != 0:
            # output path that cannot be written is a legitimate failure of the CLI alone
            if out and out.startswith("nodir/"):
                ctx.probe("output_dir_missing_fails")
                return f"exit{exit_code}:nodir"
            ctx.fail("exit_code", dict(sig, cls="exit", what="nonzero_but_library_succeeds"),
                     f"exit code {exit_code} ({type(r.exception).__name__}: {str(r.exception)[:300]}) but the library call succeeds; {detail_ctx}")
            return f"exit{exit_code}"
        if out and out.startswith("nodir/"):
            ctx.fail("exit_code", dict(sig, cls="exit", what="zero_without_output"), f"exit 0 although the output directory does not exist; {detail_ctx}")
            return "exit0:nodir"
        ctx.probe("exit_agree_success")
        # ---- values -------------------------------------------------------------------------
        refv = json.loads(json.dumps(ref[1]))
        got_file = got_stdout = None
        try:
            if cmd == "json2xml" and isinstance(refv, dict) and "__not_reimportable__" in refv:
                # writexml itself succeeded on this document but what it wrote cannot be parsed back (an export/import
                # question, property C18): nothing to compare the CLI's product with
                ctx.probe("json2xml_reference_not_reimportable")
                self.products.add(op["outdir"])
                return "exit0:ref_not_reimportable"
            if cmd == "json2xml":
                from pathlib import Path

                pf = op.get("resultprefix") or "FitConfig"
                self._restart()
                got_file = pyhf.readxml.parse(Path(self._p(op["outdir"])) / f"{pf}.xml", Path(self.root))
                self.products.add(op["outdir"])
            elif out:
                with open(self._p(out), encoding="utf-8") as f:
                    got_file = json.load(f)
                self.products.add(out)
                if cmd == "inspect":
                    got_stdout = r.stdout
            elif cmd == "digest" and op.get("json") is not True:
                got_stdout = dict(line.split(":", 1) for line in r.stdout.strip().splitlines())
            else:
                got_stdout = self._parse_stdout(cmd, r.stdout)
        except Exception as e:
            ctx.fail("values", dict(sig, cls="values", what="unreadable_output"), f"exit 0 but the output cannot be read back: {type(e).__name__}: {e}; stdout={r.stdout[:200]!r}; {detail_ctx}")
            return "unreadable"
        ctx.c.oracle_evals["values"] += 1
        got = got_file if got_file is not None else got_stdout
        if cmd == "inspect":
            # the text summary on stdout must carry the same facts as the library summary
            lines = [l.split() for l in r.stdout.splitlines() if l.strip()]
            missing = []

            def row(*cells):
                # a row is compared token by token: names are free text and may themselves contain blanks
                return [t for c in cells for t in str(c).split()]

            for key, n in (("channels", len(refv["channels"])), ("samples", len(refv["samples"])), ("parameters", len(refv["parameters"])), ("modifiers", len(refv["modifiers"]))):
                if row(key, n) not in lines:
                    missing.append(f"summary {key} {n}")
            for cname, nb in refv["channels"]:
                if row(cname, nb) not in lines:
                    missing.append(f"channel {cname} {nb}")
            for sname in refv["samples"]:
                if row(sname) not in lines:
                    missing.append(f"sample {sname}")
            for pname, constraint, mtypes in refv["systematics"]:
                if row(pname, constraint, ",".join(sorted(set(mtypes)))) not in lines:
                    missing.append(f"parameter {pname} {constraint} {sorted(set(mtypes))}")
            for mname, poi, mpars in refv["measurements"]:
                want = row(mname, poi, ",".join(mpars) if mpars else "(none)")
                if want not in lines and ["(*)"] + want not in lines:
                    missing.append(f"measurement {want}")
            ctx.check(not missing, "values", dict(sig, cls="values", what="inspect_text"),
                      lambda: f"inspect text summary disagrees with the library: missing rows {missing[:6]}; {detail_ctx}")
        if cmd == "inspect" and got_file is None:
            pass
        else:
            ctx.check(self._same(got, refv), "values", dict(sig, cls="values", what="differs"),
                      lambda: f"CLI output differs from the library call: got {json.dumps(got)[:400]} expected {json.dumps(refv)[:400]}; {detail_ctx}")
        # ---- stdout vs file ----------------------------------------------------------------
        if op.get("both_outputs") and cmd not in ("digest", "ps_verify", "ps_inspect", "json2xml", "inspect") and not fault:
            alt_out = None if out else f"alt_{self.ninv}.json"
            argv2, stdin2 = self._argv(op, op["via"], alt_out)
            r2, c2, _ = self._invoke(argv2, stdin2, None, op.get("seed") if op.get("calctype") == "toybased" else None)
            try:
                if alt_out:
                    with open(self._p(alt_out), encoding="utf-8") as f:
                        other = json.load(f)
                else:
                    other = json.loads(r2.stdout)
                ctx.check(r2.exit_code == 0 and core.canon(other) == core.canon(got), "stdout_vs_file", dict(sig, cls="stdout_vs_file", what="differs"),
                          lambda: f"output to a file and to standard output differ: {json.dumps(got)[:300]} vs {json.dumps(other)[:300]}; {detail_ctx}")
                ctx.probe("stdout_vs_file_identical")
            except Exception as e:
                ctx.fail("stdout_vs_file", dict(sig, cls="stdout_vs_file", what="second_route_fails"), f"same invocation with the other output route failed: {type(e).__name__}: {e}; exit={r2.exit_code if r2 else None}; {detail_ctx}")
        # ---- stdin vs path -------------------------------------------------------------------
        if op.get("both_inputs") and cmd not in ("xml2json", "json2xml") and not fault:
            via2 = "stdin" if op["via"] == "path" else "path"
            alt_out = f"alti_{self.ninv}.json" if out else None
            argv3, stdin3 = self._argv(op, via2, alt_out)
            r3, c3, _ = self._invoke(argv3, stdin3, None, op.get("seed") if op.get("calctype") == "toybased" else None)
            try:
                if alt_out:
                    with open(self._p(alt_out), encoding="utf-8") as f:
                        other = json.load(f)
                    same = core.canon(other) == core.canon(got_file)
                else:
                    same = r3.stdout == r.stdout
                ctx.check(r3.exit_code == 0 and same, "stdin_vs_path", dict(sig, cls="stdin_vs_path", what="differs"),
                          lambda: f"input via stdin and via path give different output; {detail_ctx}")
                ctx.probe("stdin_vs_path_identical")
            except Exception as e:
                ctx.fail("stdin_vs_path", dict(sig, cls="stdin_vs_path", what="second_route_fails"), f"{type(e).__name__}: {e}; {detail_ctx}")
        # ---- the same invocation as a real process (validates the restart emulation) ----------
        if op.get("subprocess") and not fault:
            alt_out = f"sub_{self.ninv}.json" if out else None
            argv4, stdin4 = self._argv(op, op["via"], alt_out)
            env = dict(os.environ, PYTHONPATH=os.environ.get("VERIF_REPO_SRC", "/repo/src"), PYTHONHASHSEED="0")
            try:
                pr = subprocess.run(["/venv/bin/python", "-W", "ignore", "-c", "from pyhf.cli import cli; cli()"] + argv4, input=stdin4 or "",
                                    capture_output=True, text=True, cwd=self.root, env=env, timeout=300)
                if cmd == "json2xml":
                    # no document on stdout: the product is the directory, read it back
                    from pathlib import Path

                    self._restart()
                    again = pyhf.readxml.parse(Path(self._p(op["outdir"])) / f"{op.get('resultprefix') or 'FitConfig'}.xml", Path(self.root))
                    same = self._same(json.loads(json.dumps(again)), refv)
                elif alt_out:
                    with open(self._p(alt_out), encoding="utf-8") as f:
                        other = json.load(f)
                    same = self._same(other, got_file)
                else:
                    same = (self._same(json.loads(pr.stdout), json.loads(r.stdout)) if cmd not in ("inspect", "ps_verify", "ps_inspect", "digest") or (cmd == "digest" and op.get("json"))
                            else pr.stdout == r.stdout)
                ctx.check(pr.returncode == 0 and same, "subprocess", dict(sig, cls="subprocess", what="differs"),
                          lambda: f"real subprocess (rc={pr.returncode}) disagrees with the in-process invocation: {pr.stdout[:200]!r} / {pr.stderr[-300:]!r}; {detail_ctx}")
                ctx.probe("real_subprocess_agrees")
            except subprocess.TimeoutExpired:
                raise core.HarnessError("subprocess timeout")
            except (ValueError, OSError) as e:
                ctx.fail("subprocess", dict(sig, cls="subprocess", what="unreadable"), f"{type(e).__name__}: {e}; stdout={pr.stdout[:200]!r} stderr={pr.stderr[-300:]!r}; {detail_ctx}")
        # ---- inputs untouched ---------------------------------------------------------------
        for name, content in snap.items():
            try:
                with open(self._p(name), "rb") as f:
                    now = f.read()
            except OSError:
                now = None
            ctx.check(now == content, "inputs_untouched", dict(sig, cls="inputs", what="modified"), f"input file {name} was modified by the command; {detail_ctx}")
        return f"exit0:{core.short(core.canon(got) if not isinstance(got, str) else got, 8)}"
