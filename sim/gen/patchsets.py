"""Seeded generator of RFC-6902 op lists valid against a workspace and of
patch-set documents (valid and deliberately duplicated)."""
import copy
import hashlib
import json

from sim.ref import jsonpatch_ref as jp

INTERNAL_WORDS = ["name", "values", "metadata", "patches", "digests", "labels", "version", "patch"]
ORDINARY = ["sig_100_50", "Point_A", "m300", "x_1", "SIGNAL", "p0", "p1", "bench_7", "a", "Z"]


def canon_digest(doc, alg):
    return getattr(hashlib, alg)(json.dumps(doc, sort_keys=True, ensure_ascii=False).encode("utf8")).hexdigest()


def gen_patch_ops(rng, ws, nops, channels_only=False):
    """ops generated against a working copy so that every path is valid at its turn
    and the result is still a schema-valid workspace."""
    cur = copy.deepcopy(ws)
    ops = []
    for _ in range(nops):
        ci = rng.randrange(len(cur["channels"]))
        ch = cur["channels"][ci]
        si = rng.randrange(len(ch["samples"]))
        smp = ch["samples"][si]
        nb = len(smp["data"])
        kind = rng.choice(["add_sample", "replace_bin", "replace_obs", "remove_mod", "copy_mod", "move_mod", "test",
                           "replace_poi", "add_param", "add_sample", "cross_num", "cross_num", "cross_param"] + (["root"] if rng.random() < 0.25 else []))
        if channels_only:
            # operations that also make sense on a model specification ({channels, parameters}: what Workspace.model patches)
            kind = rng.choice(["add_sample", "replace_bin", "remove_mod", "copy_mod", "move_mod", "test", "replace_bin"])
        op = None
        if kind == "add_sample":
            s = {"name": f"new_signal_{len(ops)}", "data": [round(rng.uniform(1, 9), 3) for _ in range(nb)],
                 "modifiers": [{"name": "mu_sig", "type": "normfactor", "data": None}]}
            pos = rng.choice(["-", "0", str(len(ch["samples"]))])
            op = {"op": "add", "path": f"/channels/{ci}/samples/{pos}", "value": s}
        elif kind == "replace_bin":
            op = {"op": "replace", "path": f"/channels/{ci}/samples/{si}/data/{rng.randrange(nb)}",
                  "value": round(rng.uniform(1, 90), 3)}
        elif kind == "replace_obs":
            oi = rng.randrange(len(cur["observations"]))
            od = cur["observations"][oi]["data"]
            op = {"op": "replace", "path": f"/observations/{oi}/data/{rng.randrange(len(od))}", "value": float(rng.randint(0, 200))}
        elif kind == "remove_mod" and smp["modifiers"]:
            op = {"op": "remove", "path": f"/channels/{ci}/samples/{si}/modifiers/{rng.randrange(len(smp['modifiers']))}"}
        elif kind in ("copy_mod", "move_mod") and smp["modifiers"]:
            mi = rng.randrange(len(smp["modifiers"]))
            m = smp["modifiers"][mi]
            # only scalar modifiers can be moved between samples of different binning
            if m["type"] in ("normfactor", "normsys", "lumi"):
                cj = rng.randrange(len(cur["channels"]))
                sj = rng.randrange(len(cur["channels"][cj]["samples"]))
                op = {"op": "copy" if kind == "copy_mod" else "move",
                      "from": f"/channels/{ci}/samples/{si}/modifiers/{mi}",
                      "path": f"/channels/{cj}/samples/{sj}/modifiers/-" if (cj, sj) != (ci, si) or kind == "copy_mod"
                      else f"/channels/{ci}/samples/{si}/modifiers/0"}
        elif kind == "cross_num":
            # move/copy a number between two top-level sections (observations <-> channels): the source
            # section is then touched only through 'from'
            oi = rng.randrange(len(cur["observations"]))
            od = cur["observations"][oi]["data"]
            verb = rng.choice(["move", "copy"])
            if rng.random() < 0.5 and (len(od) > 1 or verb == "copy"):
                op = {"op": verb, "from": f"/observations/{oi}/data/{rng.randrange(len(od))}",
                      "path": f"/channels/{ci}/samples/{si}/data/{rng.choice(['-', '0'])}"}
            elif nb > 1 or verb == "copy":
                op = {"op": verb, "from": f"/channels/{ci}/samples/{si}/data/{rng.randrange(nb)}",
                      "path": f"/observations/{oi}/data/{rng.choice(['-', '0'])}"}
        elif kind == "cross_param":
            # copy a name from the channels section into a new parameter configuration of a measurement
            if smp["modifiers"]:
                mi = rng.randrange(len(smp["modifiers"]))
                me = rng.randrange(len(cur["measurements"]))
                ops_ = [{"op": "add", "path": f"/measurements/{me}/config/parameters/-", "value": {"name": "placeholder", "fixed": True}},
                        {"op": "copy", "from": f"/channels/{ci}/samples/{si}/modifiers/{mi}/name",
                         "path": f"/measurements/{me}/config/parameters/{len(cur['measurements'][me]['config']['parameters'])}/name"}]
                try:
                    cur = jp.apply_patch(cur, ops_)
                    ops.extend(ops_)
                except jp.PatchError:
                    pass
                continue
        elif kind == "root":
            # an operation on the whole document (the empty JSON pointer): replace/add it by an edited copy of itself
            doc2 = copy.deepcopy(cur)
            doc2["channels"][ci]["samples"][si]["data"][rng.randrange(nb)] = round(rng.uniform(1, 90), 3)
            op = {"op": rng.choice(["replace", "add"]), "path": "", "value": doc2}
        elif kind == "test":
            op = {"op": "test", "path": f"/channels/{ci}/name", "value": ch["name"]}
        elif kind == "replace_poi":
            op = {"op": "replace", "path": "/measurements/0/config/poi", "value": rng.choice(["mu", "mu_sig"])}
        elif kind == "add_param":
            op = {"op": "add", "path": "/measurements/0/config/parameters/-",
                  "value": {"name": f"extra_{len(ops)}", "bounds": [[0.0, 5.0]], "inits": [1.0]}}
        if op is None:
            continue
        try:
            cur = jp.apply_patch(cur, [op])
        except jp.PatchError:
            continue
        ops.append(op)
    if not ops:
        ops = [{"op": "test", "path": "/version", "value": "1.0.0"}]
    return ops


def gen_patchset(rng, ws, *, dup=None):
    nlabels = rng.randint(1, 3)
    labels = rng.sample(["mass", "x", "m_chi", "lifetime"], nlabels)
    npatch = rng.randint(1, 6)
    pool = list(ORDINARY)
    # bias towards the words the implementation uses internally
    names = []
    for _ in range(npatch):
        if rng.random() < 0.35:
            cand = [w for w in INTERNAL_WORDS if w not in names]
        else:
            cand = [w for w in pool if w not in names]
        names.append(rng.choice(cand))
    tuples = []
    while len(tuples) < npatch:
        t = []
        for _ in range(nlabels):
            r = rng.random()
            if r < 0.5:
                t.append(rng.randint(0, 12) * 100)
            elif r < 0.85:
                t.append(round(rng.uniform(0, 50), 2) + 0.25)
            else:
                t.append(rng.choice(["lo", "hi", "nominal"]))
        if rng.random() < 0.12:
            a0 = rng.randint(0, 120)
            t = [a0 + i for i in range(nlabels)]   # small consecutive integers: what range() and bytes iterate as
        if tuples and rng.random() < 0.35:
            # look-alikes of an existing tuple that are nevertheless different keys
            base = list(rng.choice(tuples))
            how = rng.choice(["permute", "near", "strnum", "negzero"])
            if how == "permute" and len(base) > 1:
                t = base[1:] + base[:1]
            elif how == "near":
                i = rng.randrange(len(base))
                if isinstance(base[i], (int, float)):
                    t = list(base)
                    t[i] = float(base[i]) + 1e-7 if base[i] else 1e-9
            elif how == "strnum":
                i = rng.randrange(len(base))
                t = list(base)
                t[i] = str(base[i]) if not isinstance(base[i], str) else base[i] + "_"
        if not any(_eq_tuple(t, u) for u in tuples):
            tuples.append(t)
    patches = [{"metadata": {"name": n, "values": t},
                "patch": [] if rng.random() < 0.12 else gen_patch_ops(rng, ws, rng.randint(1, 4))}   # an empty list is a valid (no-op) patch
               for n, t in zip(names, tuples)]
    if rng.random() < 0.3:
        patches[0]["metadata"]["comment"] = "additional metadata is allowed"
    if rng.random() < 0.2:
        # a guard that does not hold (on the background itself or on what earlier operations produced): applying
        # this patch must fail as a whole
        pj = patches[rng.randrange(len(patches))]
        guard = rng.choice([{"op": "test", "path": "/version", "value": "9.9.9"},
                            {"op": "test", "path": "/channels/0/name", "value": "no such channel"},
                            {"op": "test", "path": "/channels/0/samples/0/data/0", "value": -12345.0}])
        pj["patch"].insert(rng.randrange(len(pj["patch"]) + 1), guard)
    if dup == "name" and npatch >= 2:
        i, j = rng.sample(range(npatch), 2)
        patches[j]["metadata"]["name"] = patches[i]["metadata"]["name"]
    elif dup == "values" and npatch >= 2:
        i, j = rng.sample(range(npatch), 2)
        patches[j]["metadata"]["values"] = list(patches[i]["metadata"]["values"])
    elif dup == "verbatim" and npatch >= 1:
        # one patch listed twice word for word (name, values, operations): still two patches with one name
        i = rng.randrange(npatch)
        twin = copy.deepcopy(patches[i])
        if rng.random() < 0.4 and all(isinstance(x, int) for x in twin["metadata"]["values"]):
            twin["metadata"]["values"] = [float(x) for x in twin["metadata"]["values"]]   # numerically the same tuple
        patches.insert(rng.randrange(len(patches) + 1), twin)
    elif dup == "both" and npatch >= 2:
        i, j = rng.sample(range(npatch), 2)
        patches[j]["metadata"]["name"] = patches[i]["metadata"]["name"]
        patches[j]["metadata"]["values"] = list(patches[i]["metadata"]["values"])
    elif dup is not None:
        dup = None
    algs = rng.choice([["sha256"], ["md5"], ["sha256", "md5"], ["md5", "sha256"]])
    doc = {
        "metadata": {
            "references": {"hepdata": "ins%07d" % rng.randrange(10**7)},
            "description": "generated patchset",
            "digests": {a: canon_digest(ws, a) for a in algs},
            "labels": labels,
        },
        "patches": patches,
        "version": "1.0.0",
    }
    if rng.random() < 0.25:
        # the schema allows further members in the patch-set metadata - also ones named like a patch's own
        k = rng.choice(["name", "values", "name", "values", "contact", "patch", "metadata"])
        doc["metadata"][k] = rng.choice(["overall", [1, 2], list(patches[0]["metadata"]["values"]), patches[-1]["metadata"]["name"], {"a": 1}, 7])
        if rng.random() < 0.4:
            k2 = "values" if k == "name" else "name"
            doc["metadata"][k2] = rng.choice(["setname", [300, 100], 3.5])
    return doc, dup


def _eq_tuple(a, b):
    return len(a) == len(b) and all(x == y for x, y in zip(a, b))


def leaves(doc, prefix=()):
    """All (path, value) leaves of a JSON document (scalars and empty containers)."""
    if isinstance(doc, dict):
        if not doc:
            yield prefix, doc
        for k in sorted(doc):
            yield from leaves(doc[k], prefix + (k,))
    elif isinstance(doc, list):
        if not doc:
            yield prefix, doc
        for i, v in enumerate(doc):
            yield from leaves(v, prefix + (i,))
    else:
        yield prefix, doc


def objects(doc, prefix=()):
    if isinstance(doc, dict):
        yield prefix
        for k in sorted(doc):
            yield from objects(doc[k], prefix + (k,))
    elif isinstance(doc, list):
        for i, v in enumerate(doc):
            yield from objects(v, prefix + (i,))


def flip_value(v, variant=0):
    """A different JSON value of (mostly) the same type: always changes the canonical text."""
    if isinstance(v, bool):
        return not v
    if isinstance(v, (int, float)):
        if variant % 4 == 3:
            import math
            return math.nextafter(float(v), math.inf) if isinstance(v, float) else v + 1   # smallest representable change
        return [v + 1, v * 2 + 0.5, -v - 1e-9][variant % 4]
    if isinstance(v, str):
        return [v + "x", v[:-1] if len(v) > 1 else v + "_", v.upper() if v.upper() != v else v.lower() + "q"][variant % 3]
    if v is None:
        return [0, "", False][variant % 3]
    if isinstance(v, list):
        return [None]
    if isinstance(v, dict):
        return {"k": 1}
    raise TypeError(type(v))


def permute_keys(doc, rng):
    if isinstance(doc, dict):
        ks = list(doc)
        rng.shuffle(ks)
        return {k: permute_keys(doc[k], rng) for k in ks}
    if isinstance(doc, list):
        return [permute_keys(v, rng) for v in doc]
    return doc
