"""Seeded generator of schema-valid, structurally consistent HistFactory
workspaces.  Every choice comes from the ``random.Random`` handed in."""
from __future__ import annotations

import copy

ALL_MODS = ["normfactor", "normsys", "histosys", "shapesys", "staterror", "shapefactor", "lumi"]
SAMPLE_POOL = ["signal", "bkg1", "bkg2", "qcd"]


def r3(rng, lo, hi):
    """a float with few decimal digits (prints short, survives text round trips)"""
    return round(rng.uniform(lo, hi), 3)


def gen_workspace(rng, *, max_channels=3, max_samples=3, max_bins=4, mods=None,
                  exportable=False, n_meas=(1, 2), lumi_prob=0.35, name_prefix="") -> dict:
    mods = list(mods) if mods is not None else rng.sample(ALL_MODS, rng.randint(2, len(ALL_MODS)))
    if "normfactor" not in mods:
        mods.append("normfactor")
    nchan = rng.randint(1, max_channels)
    channels = []
    shared_normsys = [f"{name_prefix}ns{i}" for i in range(rng.randint(1, 2))]
    shared_histosys = [f"{name_prefix}hs{i}" for i in range(rng.randint(1, 2))]
    if rng.random() < 0.12:
        # punctuation in parameter names, and names that differ only in it (no blanks: the XML format lists
        # parameter names separated by blanks)
        shared_normsys = [name_prefix + n for n in rng.sample(["b-tag", "b_tag", "b.tag", "JES+", "JES_"], len(shared_normsys))]
        shared_histosys = [name_prefix + n for n in rng.sample(["pt(j)", "pt_j_", "pt-j", "sf:e", "sf_e"], len(shared_histosys))]
    both_name = f"{name_prefix}corr"  # used as histosys AND normsys (allowed: same constraint)
    use_lumi = "lumi" in mods and rng.random() < lumi_prob / 0.35 * 0.6
    shapefactor_bins = None
    extra_nf = f"{name_prefix}k_bkg"
    if rng.random() < 0.1:
        # a free normalisation factor (possibly the POI of a later measurement) whose own name looks like the names
        # ROOT generates for constrained / bin-wise parameters
        extra_nf = rng.choice(["alpha_S", "gamma_k_0", "alpha_" + name_prefix + "k"])
    have_mu = False
    # channel names are NOT in sorted order in general (pyhf sorts internally; order bugs hide otherwise)
    cnames = rng.sample(["ch0", "ch1", "ch2", "SR", "CR", "zlast", "Afirst"], nchan) if rng.random() < 0.6 else [f"ch{ci}" for ci in range(nchan)]
    if rng.random() < 0.15:
        # names are free text: punctuation and blanks, and names that differ ONLY in such characters
        cnames = rng.sample(["e+jets", "e_jets", "e jets", "e-jets", "SR (1L)", "SR_1L", "SR.1L", "mu+jets", "mu_jets"], nchan)
    for ci in range(nchan):
        nb = rng.randint(1, max_bins)
        cname = f"{name_prefix}{cnames[ci]}"
        nsamp = rng.randint(1, max_samples)
        snames = ["signal"] + rng.sample(SAMPLE_POOL[1:], nsamp - 1) if (ci == 0 or rng.random() < 0.6) else rng.sample(SAMPLE_POOL[1:], min(nsamp, 3))
        if rng.random() < 0.12:
            # sample names with punctuation/blanks and near-twins
            twins = rng.sample(["W+jets", "W_jets", "W jets", "t tbar", "t_tbar", "Z(ll)", "Z_ll_"], len(snames))
            snames = [sn if sn == "signal" else tw for sn, tw in zip(snames, twins)]
        samples = []
        use_stat = "staterror" in mods and rng.random() < 0.6
        for si, sn in enumerate(snames):
            nom = [r3(rng, 2.0, 80.0) for _ in range(nb)]
            ms = []
            if sn == "signal":
                ms.append({"name": "mu", "type": "normfactor", "data": None})
                have_mu = True
            elif "normfactor" in mods and rng.random() < 0.25:
                ms.append({"name": extra_nf, "type": "normfactor", "data": None})
            if use_lumi and rng.random() < 0.8:
                ms.append({"name": "lumi", "type": "lumi", "data": None})
            if "normsys" in mods:
                for n in shared_normsys:
                    if rng.random() < 0.5:
                        ms.append({"name": n, "type": "normsys",
                                   "data": {"hi": r3(rng, 1.02, 1.4), "lo": r3(rng, 0.65, 0.98)}})
            if "histosys" in mods:
                for n in shared_histosys:
                    if rng.random() < 0.5:
                        ms.append({"name": n, "type": "histosys", "data": {
                            "hi_data": [round(v * rng.uniform(1.02, 1.3), 3) for v in nom],
                            "lo_data": [round(v * rng.uniform(0.7, 0.98), 3) for v in nom]}})
            if "normsys" in mods and "histosys" in mods and rng.random() < 0.25:
                ms.append({"name": both_name, "type": "normsys",
                           "data": {"hi": r3(rng, 1.02, 1.3), "lo": r3(rng, 0.7, 0.98)}})
                ms.append({"name": both_name, "type": "histosys", "data": {
                    "hi_data": [round(v * rng.uniform(1.02, 1.2), 3) for v in nom],
                    "lo_data": [round(v * rng.uniform(0.8, 0.98), 3) for v in nom]}})
            if "shapesys" in mods and sn != "signal" and rng.random() < 0.45:
                d = [round(v * rng.uniform(0.05, 0.3), 3) for v in nom]
                if nb > 1 and rng.random() < 0.2 and not exportable:
                    d[rng.randrange(nb)] = 0.0  # masked bin
                ms.append({"name": f"{name_prefix}shape_{cname}_{sn}", "type": "shapesys", "data": d})
            if use_stat and rng.random() < 0.8:
                ms.append({"name": f"staterror_{cname}", "type": "staterror",
                           "data": [round(v * rng.uniform(0.03, 0.25), 3) for v in nom]})
            if "shapefactor" in mods and sn != "signal" and rng.random() < 0.2:
                if exportable:
                    ms.append({"name": f"{name_prefix}sf_{cname}", "type": "shapefactor", "data": None})
                elif shapefactor_bins in (None, nb):
                    shapefactor_bins = nb
                    ms.append({"name": f"{name_prefix}sf", "type": "shapefactor", "data": None})
            rng.shuffle(ms)
            samples.append({"name": sn, "data": nom, "modifiers": ms})
        channels.append({"name": cname, "samples": samples})
    if not have_mu:
        channels[0]["samples"][0]["modifiers"].append({"name": "mu", "type": "normfactor", "data": None})

    # make sure every sample has at least one modifier? (not required by pyhf)
    used = {(m["name"], m["type"]) for c in channels for s in c["samples"] for m in s["modifiers"]}
    used_names = sorted({n for n, _ in used})

    observations = []
    for c in channels:
        nb = len(c["samples"][0]["data"])
        tot = [sum(s["data"][b] for s in c["samples"]) for b in range(nb)]
        observations.append({"name": c["name"], "data": [float(max(0, round(t * rng.uniform(0.7, 1.3)))) for t in tot]})

    rng.shuffle(observations)
    measurements = []
    nmeas = rng.randint(*n_meas)
    # settings that the XML format stores once per workspace are identical across measurements
    nf_cfg = {}
    for n, t in sorted(used):
        if t == "normfactor" and rng.random() < 0.6:
            lo = r3(rng, 0.0, 0.5) if n != "mu" else 0.0
            hi = r3(rng, 5.0, 12.0)
            nf_cfg[n] = {"name": n, "bounds": [[lo, hi]], "inits": [r3(rng, 0.8, 1.5)]}
            r = rng.random()
            if r < 0.15:
                del nf_cfg[n]["bounds"]     # only an initial value configured
            elif r < 0.3:
                del nf_cfg[n]["inits"]      # only bounds configured
    lumi_cfg = None
    if ("lumi", "lumi") in used:
        lv = r3(rng, 0.8, 2.5) if rng.random() < 0.7 else 1.0
        sg = round(lv * rng.uniform(0.01, 0.05), 4)
        lumi_cfg = {"name": "lumi", "auxdata": [lv], "sigmas": [sg],
                    "bounds": [[round(lv - 5 * sg, 6), round(lv + 5 * sg, 6)]], "inits": [lv]}
    for mi in range(nmeas):
        params = [copy.deepcopy(v) for v in nf_cfg.values()]
        if lumi_cfg:
            lc = copy.deepcopy(lumi_cfg)
            if mi > 0 and rng.random() < 0.5:
                # the luminosity (value and uncertainty) is a per-measurement setting
                lv = r3(rng, 0.8, 2.5)
                sg = round(lv * rng.uniform(0.01, 0.05), 4)
                lc.update(auxdata=[lv], sigmas=[sg], bounds=[[round(lv - 5 * sg, 6), round(lv + 5 * sg, 6)]], inits=[lv])
            if rng.random() < 0.3:
                # a fit started away from the nominal luminosity: the initial value is not the constraint centre
                lv, sg = lc["auxdata"][0], lc["sigmas"][0]
                lc["inits"] = [round(lv + rng.choice([-2.0, -1.0, 1.0, 2.5]) * sg, 6)]
            if rng.random() < 0.4:
                lc["fixed"] = True
            params.append(lc)
        # fix some scalar constrained parameters
        for n, t in sorted(used):
            # (the XML format lists constant parameters separated by blanks: a name with a blank cannot be expressed there)
            if t in ("normsys", "histosys", "shapefactor") and rng.random() < 0.15 and not any(p["name"] == n for p in params) \
                    and not any(ch.isspace() for ch in n):
                params.append({"name": n, "fixed": True})
        poi = "mu" if (mi == 0 or extra_nf not in used_names or rng.random() < 0.6) else extra_nf
        rng.shuffle(params)
        measurements.append({"name": f"{name_prefix}meas{mi}", "config": {"poi": poi, "parameters": params}})
    return {"channels": channels, "observations": observations, "measurements": measurements, "version": "1.0.0"}


def model_spec(ws: dict, mi: int = 0) -> tuple[dict, str]:
    """What Workspace.model() hands to Model for measurement mi (no patches)."""
    m = ws["measurements"][mi]
    return ({"channels": copy.deepcopy(ws["channels"]),
             "parameters": copy.deepcopy(m["config"]["parameters"])}, m["config"]["poi"])


def shrink_workspace(ws: dict):
    """Yield structurally smaller variants (for minimisation).  Each candidate
    remains schema-valid; consistency is preserved by construction
    (dropping things never creates a conflict)."""
    # drop a channel
    if len(ws["channels"]) > 1:
        for i in range(len(ws["channels"])):
            w = copy.deepcopy(ws)
            nm = w["channels"][i]["name"]
            del w["channels"][i]
            w["observations"] = [o for o in w["observations"] if o["name"] != nm]
            if any(m["name"] == "mu" for c in w["channels"] for s in c["samples"] for m in s["modifiers"]):
                yield w
    # drop a sample
    for ci, c in enumerate(ws["channels"]):
        if len(c["samples"]) > 1:
            for si in range(len(c["samples"])):
                w = copy.deepcopy(ws)
                del w["channels"][ci]["samples"][si]
                if any(m["name"] == "mu" for c2 in w["channels"] for s in c2["samples"] for m in s["modifiers"]):
                    yield w
    # drop a modifier
    for ci, c in enumerate(ws["channels"]):
        for si, s in enumerate(c["samples"]):
            for mi, m in enumerate(s["modifiers"]):
                if m["name"] == "mu":
                    continue
                w = copy.deepcopy(ws)
                del w["channels"][ci]["samples"][si]["modifiers"][mi]
                _prune_params(w)
                yield w
    # drop a measurement
    if len(ws["measurements"]) > 1:
        for i in range(1, len(ws["measurements"])):
            w = copy.deepcopy(ws)
            del w["measurements"][i]
            yield w


def _prune_params(w):
    names = {m["name"] for c in w["channels"] for s in c["samples"] for m in s["modifiers"]}
    for meas in w["measurements"]:
        meas["config"]["parameters"] = [p for p in meas["config"]["parameters"] if p["name"] in names]
        if meas["config"]["poi"] not in names:
            meas["config"]["poi"] = "mu"
