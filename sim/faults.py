"""I/O fault layer over the file operations pyhf's own modules perform.

The seams are shadowed *as seen from the pyhf modules* (module attributes
``open``, ``shutil``, ``uproot``, ``os``, ``click``), never globally, so the
simulator's own file handling and the libraries' internals are untouched.
Every operation passing a seam ticks a counter; an armed plan fires at the
n-th tick with either a crash (SimCrash: the process dies there) or an
OSError (ENOSPC/EIO/EACCES: the call fails, the process lives).
"""
from __future__ import annotations

import builtins
import errno as _errno
import os
import types

from .core import SimCrash

ERRNOS = {"ENOSPC": _errno.ENOSPC, "EIO": _errno.EIO, "EACCES": _errno.EACCES}


class IOFaults:
    def __init__(self):
        self.plan = None
        self.count = 0
        self.fired = None
        self.trace = []

    def arm(self, kind: str, at: int, err: str = "EIO"):
        self.plan = {"kind": kind, "at": at, "err": err}
        self.count = 0
        self.fired = None
        self.trace = []

    def disarm(self):
        n, fired = self.count, self.fired
        self.plan = None
        return n, fired

    def reset_count(self):
        self.count = 0
        self.fired = None
        self.trace = []

    def tick(self, what: str):
        self.count += 1
        self.trace.append(what)
        p = self.plan
        if p and self.fired is None and self.count == p["at"]:
            self.fired = what
            if p["kind"] == "crash":
                raise SimCrash(f"crash at file op #{self.count} ({what})")
            code = ERRNOS[p["err"]]
            raise OSError(code, os.strerror(code), what)


class _FileProxy:
    def __init__(self, f, faults, name):
        self._f, self._faults, self._name = f, faults, name

    def write(self, data):
        self._faults.tick(f"write:{self._name}")
        return self._f.write(data)

    def __enter__(self):
        self._f.__enter__()
        return self

    def __exit__(self, *a):
        # closing flushes; a crash here leaves whatever the OS already has
        try:
            self._faults.tick(f"close:{self._name}")
        except BaseException:
            self._f.close()
            raise
        return self._f.__exit__(*a)

    def __getattr__(self, k):
        return getattr(self._f, k)

    def __iter__(self):
        return iter(self._f)


class _RootProxy:
    """Proxy of uproot's writable file: every histogram write is a file op."""

    def __init__(self, real, faults, path):
        self._real, self._faults, self._path = real, faults, path

    @property
    def file_path(self):
        return self._real.file_path

    def __enter__(self):
        self._real.__enter__()
        return self

    def __exit__(self, *a):
        try:
            self._faults.tick("rootclose")
        except BaseException:
            self._real.__exit__(*a)
            raise
        return self._real.__exit__(*a)

    def __contains__(self, k):
        return k in self._real

    def __setitem__(self, k, v):
        self._faults.tick(f"roothist:{k}")
        self._real[k] = v

    def __getitem__(self, k):
        return self._real[k]

    def __getattr__(self, k):
        return getattr(self._real, k)


def _base(p):
    return os.path.basename(str(p))


def install(faults: IOFaults):
    """Shadow the seams in pyhf.writexml and pyhf.cli.* (idempotent)."""
    import shutil

    import click
    import uproot
    import pyhf.writexml as wx
    import pyhf.cli.rootio as rootio
    import pyhf.cli.spec as cspec
    import pyhf.cli.infer as cinfer
    import pyhf.cli.patchset as cpatch

    if getattr(wx, "_verif_faults", None) is faults:
        return

    def f_open(file, mode="r", *a, **k):
        writing = any(c in mode for c in "wa+x")
        if writing:
            faults.tick(f"open:{_base(file)}")
        f = builtins.open(file, mode, *a, **k)
        return _FileProxy(f, faults, _base(file)) if writing else f

    class ShutilProxy(types.SimpleNamespace):
        def __getattr__(self, k):
            return getattr(shutil, k)

    def copyfile(src, dst, *a, **k):
        faults.tick(f"copyfile:{_base(dst)}")
        return shutil.copyfile(src, dst, *a, **k)

    class UprootProxy:
        def __getattr__(self, k):
            return getattr(uproot, k)

        def recreate(self, path, *a, **k):
            faults.tick(f"rootcreate:{_base(path)}")
            return _RootProxy(uproot.recreate(path, *a, **k), faults, path)

    class OsProxy:
        def __getattr__(self, k):
            return getattr(os, k)

        def makedirs(self, p, *a, **k):
            faults.tick(f"makedirs:{_base(p)}")
            return os.makedirs(p, *a, **k)

    class ClickProxy:
        def __getattr__(self, k):
            return getattr(click, k)

        def open_file(self, filename, mode="r", *a, **k):
            writing = any(c in mode for c in "wa+x")
            if writing and str(filename) != "-":
                faults.tick(f"open:{_base(filename)}")
                return _FileProxy(click.open_file(filename, mode, *a, **k), faults, _base(filename))
            return click.open_file(filename, mode, *a, **k)

        def echo(self, message=None, *a, **k):
            faults.tick("echo")
            return click.echo(message, *a, **k)

    wx.open = f_open
    wx.shutil = ShutilProxy(copyfile=copyfile)
    wx.uproot = UprootProxy()
    wx._verif_faults = faults
    for mod in (rootio, cspec, cinfer, cpatch):
        mod.open = f_open
        mod.click = ClickProxy()
        if hasattr(mod, "os"):
            mod.os = OsProxy()
