"""Delta debugging over an op list; every candidate runs in a fresh interpreter."""
from __future__ import annotations

import copy
import json
import os
import tempfile
import time
from concurrent.futures import ThreadPoolExecutor

from . import engine


class Minimizer:
    def __init__(self, rp: dict, budget: float, par: int = 12, simplify=None):
        self.rp = rp
        self.deadline = time.monotonic() + budget
        self.par = par
        self.simplify = simplify
        self.tried = 0
        self.dir = tempfile.mkdtemp(prefix="verif-min-")

    def _fails(self, cand: dict) -> bool:
        self.tried += 1
        fd, path = tempfile.mkstemp(suffix=".json", dir=self.dir)
        with os.fdopen(fd, "w") as f:
            json.dump(cand, f)
        try:
            res = engine.run_replay_child(path, timeout=300)
        finally:
            os.unlink(path)
        return engine.same_failure(res, self.rp["expected"])

    def _first_failing(self, cands: list[dict]):
        """Evaluate candidates in parallel; return the lowest-index failing one
        (deterministic irrespective of completion order)."""
        if not cands:
            return None
        with ThreadPoolExecutor(self.par) as ex:
            flags = list(ex.map(self._fails, cands))
        for c, f in zip(cands, flags):
            if f:
                return c
        return None

    def out_of_time(self) -> bool:
        return time.monotonic() > self.deadline

    def run(self) -> dict:
        cur = copy.deepcopy(self.rp)
        # 1. drop the prelude (residue from earlier segments) if not needed
        if cur.get("prelude"):
            c = dict(cur, prelude=[])
            if self._fails(c):
                cur = c
        # 2. ddmin over ops
        n = 2
        while len(cur["ops"]) >= 2 and not self.out_of_time():
            ops = cur["ops"]
            size = max(1, len(ops) // n)
            chunks = [(i, min(i + size, len(ops))) for i in range(0, len(ops), size)]
            cands = [dict(cur, ops=ops[:a] + ops[b:]) for a, b in chunks if b - a < len(ops)]
            hit = self._first_failing(cands)
            if hit is not None:
                cur = hit
                n = max(n - 1, 2)
            elif size == 1:
                break
            else:
                n = min(len(ops), n * 2)
        # 3. per-op simplification
        if self.simplify is not None:
            changed = True
            while changed and not self.out_of_time():
                changed = False
                for i, op in enumerate(cur["ops"]):
                    cands = []
                    for s in self.simplify(op):
                        ops2 = list(cur["ops"])
                        ops2[i] = s
                        cands.append(dict(cur, ops=ops2))
                    hit = self._first_failing(cands[: self.par * 2])
                    if hit is not None:
                        cur = hit
                        changed = True
                    if self.out_of_time():
                        break
        try:
            os.rmdir(self.dir)
        except OSError:
            pass
        cur["minimized"] = {"from_ops": len(self.rp["ops"]), "to_ops": len(cur["ops"]), "candidates": self.tried}
        return cur
