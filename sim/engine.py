"""Segment executor, worker loop, replay, orchestration."""
from __future__ import annotations

import faulthandler
import gc
import importlib
import json
import os
import shutil
import subprocess
import sys
import tempfile
import time
import traceback
from collections import Counter

from . import core

VERIF = os.path.dirname(os.path.dirname(os.path.abspath(__file__)))
VENV_PY = "/venv/bin/python"
DEFAULT_SEED = 20261004


def load_driver(prop: str):
    return importlib.import_module(f"props.{prop.lower()}")


def load_known():
    p = os.path.join(VERIF, "known_findings.json")
    if not os.path.exists(p):
        return []
    with open(p) as f:
        return json.load(f)["findings"]


def scratch_root() -> str:
    base = os.environ.get("VERIF_SCRATCH")
    if not base:
        base = "/dev/shm" if os.access("/dev/shm", os.W_OK) else tempfile.gettempdir()
    d = tempfile.mkdtemp(prefix="verif-sim-", dir=base)
    return d


# ---------------------------------------------------------------------------
# one segment
# ---------------------------------------------------------------------------

def exec_segment(world, ctx: core.Ctx, cfg: dict, ops: list, upto: int | None = None) -> dict:
    """Run ops through the world.  Returns a result dict; never raises for
    oracle failures."""
    res = {"status": "ok", "nops": 0}
    try:
        world.begin(ctx, cfg)
        p1 = p2 = "^"
        for i, op in enumerate(ops):
            if upto is not None and i > upto:
                break
            ctx.log.seq = i
            kind = op["op"]
            ctx.c.ops[kind] += 1
            ctx.c.trigrams.add(core.short(f"{p2}|{p1}|{kind}", 10))
            p2, p1 = p1, kind
            try:
                obs = world.run(op)
            except core.OracleFail as e:
                ctx.log.add(kind, "FAIL " + e.oracle)
                res.update(
                    status="violation",
                    fail={"oracle": e.oracle, "sig": e.sig, "seq": i, "detail": e.detail[:2000]},
                )
                res["nops"] = i + 1
                break
            ctx.log.add(kind, obs if obs is not None else "-")
            res["nops"] = i + 1
    except core.OracleFail as e:  # raised from begin()
        res.update(status="violation", fail={"oracle": e.oracle, "sig": e.sig, "seq": -1, "detail": e.detail[:2000]})
    except core.HarnessError as e:
        res.update(status="harness", error=f"HarnessError: {e}", tb=traceback.format_exc()[-3000:])
    except core.SimCrash as e:
        res.update(status="harness", error=f"SimCrash escaped: {e}", tb=traceback.format_exc()[-3000:])
    except Exception as e:  # anything escaping a world is a harness bug
        res.update(status="harness", error=f"{type(e).__name__}: {e}", tb=traceback.format_exc()[-3000:])
    finally:
        try:
            world.end()
        except Exception as e:  # pragma: no cover
            if res["status"] == "ok":
                res.update(status="harness", error=f"end(): {type(e).__name__}: {e}", tb=traceback.format_exc()[-3000:])
    res["digest"] = ctx.log.digest()
    res["known"] = dict(ctx.known_hits)
    return res


def worker_main(prop: str, seed: int, tier: str, ks: list[int], budget: float, out: str) -> int:
    faulthandler.enable()
    drv = load_driver(prop)
    known = core.Known(load_known(), prop)
    collect = core.Collect()
    scratch = scratch_root()
    t0 = time.monotonic()
    done: list[int] = []
    samples = []
    try:
        world = drv.World(scratch)
        with open(out, "w") as fo:
            for k in ks:
                if time.monotonic() - t0 > budget:
                    break
                # a per-segment watchdog: a hang becomes a crash with a traceback
                faulthandler.dump_traceback_later(getattr(drv, "SEGMENT_TIMEOUT", 300), exit=True)
                rng = core.seg_rng(seed, prop, tier, k)
                g = drv.gen(rng, k, tier)
                ctx = core.Ctx(known, collect)
                ts = time.monotonic()
                res = exec_segment(world, ctx, g["cfg"], g["ops"])
                faulthandler.cancel_dump_traceback_later()
                res["k"] = k
                res["t"] = round(time.monotonic() - ts, 2)   # diagnostics only, never part of the event log
                if res["status"] == "ok":
                    collect.nontrivial.update(ctx.nontrivial)
                    maxops = getattr(drv, "SAMPLE_MAXOPS", 14)
                    if len(samples) < 2 and ctx.nontrivial and (len(g["ops"]) <= maxops or getattr(drv, "SAMPLE_TRUNCATE", False)):
                        smp = {"segment": k, "cfg": g["cfg"], "ops": g["ops"][:maxops]}
                        if len(g["ops"]) > maxops:
                            smp["ops_omitted"] = len(g["ops"]) - maxops
                        samples.append(smp)
                else:
                    res["cfg"] = g["cfg"]
                    res["ops"] = g["ops"][: res["nops"]] if res["status"] == "violation" else g["ops"]
                    res["prelude"] = list(done)
                done.append(k)
                fo.write(json.dumps(res) + "\n")
                fo.flush()
            summ = {"summary": True, "done": len(done), "collect": collect.dump(), "samples": samples,
                    "wall": time.monotonic() - t0}
            if hasattr(world, "summary"):
                summ["world"] = world.summary()
            fo.write(json.dumps(summ) + "\n")
    finally:
        shutil.rmtree(scratch, ignore_errors=True)
    return 0


# ---------------------------------------------------------------------------
# replay
# ---------------------------------------------------------------------------

def replay_file(path: str, quiet: bool = False) -> dict:
    """Execute a replay file in *this* interpreter (which must be fresh)."""
    with open(path) as f:
        rp = json.load(f)
    prop = rp["property"]
    drv = load_driver(prop)
    known = core.Known([] if os.environ.get("VERIF_NO_KNOWN") == "1" else load_known(), prop)
    collect = core.Collect()
    scratch = scratch_root()
    try:
        world = drv.World(scratch)
        for k in rp.get("prelude", []):
            g = drv.gen(core.seg_rng(rp["seed"], prop, rp.get("tier", "quick"), k), k, rp.get("tier", "quick"))
            exec_segment(world, core.Ctx(known, collect), g["cfg"], g["ops"])
        ctx = core.Ctx(known, collect)
        res = exec_segment(world, ctx, rp["cfg"], rp["ops"])
    finally:
        shutil.rmtree(scratch, ignore_errors=True)
    return res


def same_failure(res: dict, expected: dict) -> bool:
    if res.get("status") != "violation":
        return False
    return res["fail"]["sig"] == expected["sig"]


def run_replay_child(path: str, timeout: float = 600, no_known: bool = False) -> dict:
    """Replay in a fresh interpreter; returns the result dict."""
    env = child_env()
    if no_known:
        env["VERIF_NO_KNOWN"] = "1"
    try:
        p = subprocess.run(
            [VENV_PY, os.path.join(VERIF, "run_check.py"), "_", "--replay-json", path],
            capture_output=True, text=True, timeout=timeout, env=env, cwd=VERIF,
        )
    except subprocess.TimeoutExpired:
        return {"status": "harness", "error": "replay timeout"}
    for line in reversed(p.stdout.splitlines()):
        if line.startswith("RESULT "):
            return json.loads(line[7:])
    return {"status": "harness", "error": f"replay child rc={p.returncode}: {p.stderr[-1500:]}"}


def child_env() -> dict:
    env = dict(os.environ)
    env.update(
        PYTHONHASHSEED=env.get("VERIF_HASHSEED", "0"),
        # VERIF_REPO_SRC: used only by the self-tests to point a check at a scratch (mutated) copy
        PYTHONPATH=env.get("VERIF_REPO_SRC", "/repo/src") + os.pathsep + VERIF,
        PYTHONDONTWRITEBYTECODE="1",
        OMP_NUM_THREADS="1", OPENBLAS_NUM_THREADS="1", MKL_NUM_THREADS="1",
        TF_NUM_INTRAOP_THREADS="1", TF_NUM_INTEROP_THREADS="1",
        TF_CPP_MIN_LOG_LEVEL="3", TF_ENABLE_ONEDNN_OPTS="0",
        XLA_FLAGS="--xla_cpu_multi_thread_eigen=false intra_op_parallelism_threads=1",
        JAX_PLATFORMS="cpu", CUDA_VISIBLE_DEVICES="",
        VERIF_CHILD="1",
    )
    env.pop("PYTHONSTARTUP", None)
    return env
