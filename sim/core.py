"""Core of the deterministic simulator: seeds, event log, oracle plumbing.

Nothing in this module reads a clock or draws from a PRNG on its own: every
random choice comes from a ``random.Random`` derived from
``(VERIF_SEED, property, tier, segment)`` and handed in by the caller.
"""
from __future__ import annotations

import hashlib
import json
import math
import random
import struct
from collections import Counter


def derive(*parts) -> int:
    h = hashlib.sha256("\x1f".join(str(p) for p in parts).encode()).digest()
    return int.from_bytes(h[:8], "big")


def seg_rng(seed: int, prop: str, tier: str, k: int) -> random.Random:
    # the tier is *not* part of the derivation: segment k of a property is the
    # same history in quick and thorough, thorough just runs more of them.
    return random.Random(derive(seed, prop, k))


def canon(obj) -> str:
    return json.dumps(obj, sort_keys=True, separators=(",", ":"), default=_default)


def _default(o):
    try:
        import numpy as np

        if isinstance(o, np.ndarray):
            return o.tolist()
        if isinstance(o, np.generic):
            return o.item()
    except Exception:  # pragma: no cover
        pass
    if isinstance(o, (set, frozenset)):
        return sorted(o)
    if isinstance(o, bytes):
        return o.decode("latin1")
    return repr(type(o))


def short(s: str, n: int = 10) -> str:
    return hashlib.sha256(s.encode()).hexdigest()[:n]


def fhex(x) -> str:
    """Bit-exact digest of a float / nested list / ndarray (values+shape)."""
    import numpy as np

    a = np.asarray(x)
    if a.dtype.kind not in "fiub":
        return short(canon(a.tolist()))
    return short(f"{a.dtype.str}{a.shape}" + a.tobytes().hex())


import os

SURVEY = os.environ.get("VERIF_SURVEY") == "1"


class OracleFail(Exception):
    """An oracle of a property evaluated to false."""

    def __init__(self, oracle: str, sig: dict, detail: str):
        super().__init__(f"{oracle}: {detail}")
        self.oracle = oracle
        self.sig = dict(sig, oracle=oracle)
        self.detail = detail


class HarnessError(Exception):
    """The simulator itself is wrong (never reported as a VIOLATION)."""


class SimCrash(BaseException):
    """Injected process death.  BaseException so that no ``except Exception``
    inside the code under test can swallow it."""


class EventLog:
    def __init__(self):
        self.lines: list[str] = []
        self.seq = 0

    def add(self, kind: str, obs) -> None:
        self.lines.append(f"{self.seq}\t{kind}\t{obs if isinstance(obs, str) else canon(obs)}")

    def digest(self) -> str:
        return hashlib.sha256("\n".join(self.lines).encode()).hexdigest()


class Known:
    """Matcher over /verif/known_findings.json entries with status 'known'."""

    def __init__(self, entries, prop):
        self.entries = [
            e for e in entries if e.get("property") == prop and e.get("status") == "known"
        ]

    def match(self, sig: dict):
        for e in self.entries:
            if all(sig.get(k) == v for k, v in e["signature"].items()):
                return e["id"]
        return None


class Ctx:
    """Per-segment context handed to a driver's world."""

    def __init__(self, known: Known, collect: "Collect"):
        self.log = EventLog()
        self.known = known
        self.c = collect
        self.known_hits: Counter = Counter()
        self.nontrivial: set[str] = set()

    # --- oracle -----------------------------------------------------------
    def fail(self, oracle: str, sig: dict, detail: str) -> None:
        full = dict(sig, oracle=oracle)
        if SURVEY:
            self.c.probes["SURVEY " + canon(full)] += 1
            if self.c.probes["SURVEY " + canon(full)] == 1:
                self.c.probes["SURVEYDETAIL " + canon(full) + " :: " + detail[:300]] += 1
            return
        kid = self.known.match(full)
        if kid is not None:
            self.known_hits[kid] += 1
            self.c.known[kid] += 1
            self.log.add("known", kid)
            return
        raise OracleFail(oracle, sig, detail)

    def check(self, cond: bool, oracle: str, sig: dict, detail) -> None:
        self.c.oracle_evals[oracle] += 1
        if not cond:
            self.fail(oracle, sig, detail() if callable(detail) else detail)

    # --- measurement --------------------------------------------------------
    def fault(self, kind: str, n: int = 1) -> None:
        self.c.faults[kind] += n

    def probe(self, name: str, n: int = 1) -> None:
        self.c.probes[name] += n

    def state(self, s) -> None:
        self.c.states.add(short(s if isinstance(s, str) else canon(s), 12))

    def mark_nontrivial(self, key) -> None:
        self.nontrivial.add(short(key if isinstance(key, str) else canon(key), 16))


class Collect:
    """Per-worker accumulators (merged by the parent)."""

    def __init__(self):
        self.faults: Counter = Counter()
        self.probes: Counter = Counter()
        self.known: Counter = Counter()
        self.oracle_evals: Counter = Counter()
        self.ops: Counter = Counter()
        self.states: set[str] = set()
        self.trigrams: set[str] = set()
        self.nontrivial: set[str] = set()

    def dump(self) -> dict:
        return {
            "faults": dict(self.faults),
            "probes": dict(self.probes),
            "known": dict(self.known),
            "oracle_evals": dict(self.oracle_evals),
            "ops": dict(self.ops),
            "states": sorted(self.states),
            "trigrams": sorted(self.trigrams),
            "nontrivial": sorted(self.nontrivial),
        }

    @staticmethod
    def merge(dumps: list[dict]) -> dict:
        out = {
            "faults": Counter(),
            "probes": Counter(),
            "known": Counter(),
            "oracle_evals": Counter(),
            "ops": Counter(),
            "states": set(),
            "trigrams": set(),
            "nontrivial": set(),
        }
        for d in dumps:
            for key in ("faults", "probes", "known", "oracle_evals", "ops"):
                out[key].update(d.get(key, {}))
            for key in ("states", "trigrams", "nontrivial"):
                out[key].update(d.get(key, []))
        return out


# --- numeric comparison ---------------------------------------------------

def ulp_close(a, b, nulp: int, eps: float, atol: float = 0.0):
    """Element-wise |a-b| <= nulp*eps*max(|a|,|b|) + atol, NaN==NaN, inf==inf.
    Returns (ok, worst_index, worst_excess)."""
    import numpy as np

    a = np.asarray(a, dtype=np.float64)
    b = np.asarray(b, dtype=np.float64)
    if a.shape != b.shape:
        return False, None, f"shape {a.shape} vs {b.shape}"
    if a.size == 0:
        return True, None, 0.0
    both_nan = np.isnan(a) & np.isnan(b)
    same_inf = np.isinf(a) & np.isinf(b) & (np.sign(a) == np.sign(b))
    with np.errstate(invalid="ignore"):
        diff = np.abs(a - b)
        tol = nulp * eps * np.maximum(np.abs(a), np.abs(b)) + atol
        ok = (diff <= tol) | both_nan | same_inf
    if ok.all():
        return True, None, 0.0
    idx = np.argwhere(~ok)[0]
    return False, tuple(int(i) for i in idx), f"{a[tuple(idx)]!r} vs {b[tuple(idx)]!r}"


EPS = {"64b": 2.220446049250313e-16, "32b": 1.1920929e-07}
