"""Closed-form reference for the five interpolation codes, in Python floats /
exact rationals.  Each function returns (value, scale) where ``scale`` is the
sum of absolute values of the summands (error-model denominator)."""
from __future__ import annotations

import math
from fractions import Fraction
from functools import lru_cache


def code0(dn, nom, up, a):
    if a >= 0:
        return a * (up - nom), abs(a) * (abs(up) + abs(nom))
    return a * (nom - dn), abs(a) * (abs(nom) + abs(dn))


def code1(dn, nom, up, a):
    if a >= 0:
        v = math.pow(up / nom, a)
        return v, v * (1 + abs(a) * (1 + abs(math.log(up / nom))))
    v = math.pow(dn / nom, -a)
    return v, v * (1 + abs(a) * (1 + abs(math.log(dn / nom))))


def code2(dn, nom, up, al):
    a = 0.5 * (up + dn) - nom
    b = 0.5 * (up - dn)
    s = abs(up) + abs(dn) + abs(nom)
    if al > 1:
        # continuous linear extrapolation with the slope of the quadratic at +1
        return (b + 2 * a) * (al - 1) + (up - nom), s * (abs(al) + 2) * 2
    if al < -1:
        return (b - 2 * a) * (al + 1) + (dn - nom), s * (abs(al) + 2) * 2
    return a * al * al + b * al, s * (al * al + abs(al) + 1e-300)


def code4p(dn, nom, up, al):
    s_ = abs(up) + abs(dn) + abs(nom)
    if al > 1:
        return al * (up - nom), abs(al) * s_
    if al < -1:
        return al * (nom - dn), abs(al) * s_
    S = 0.5 * (up - dn)
    A = 0.0625 * (up + dn - 2 * nom)
    return al * (S + al * A * (15 + al * al * (-10 + al * al * 3))), s_ * (abs(al) + 28 * al * al / 16 * 2 + 1e-300)


@lru_cache(maxsize=None)
def _ainv(alpha0: Fraction):
    """Exact inverse of the 6x6 system: p(x)=1+sum_{i=1..6} c_i x^i with
    p(+-a0), p'(+-a0), p''(+-a0) prescribed.  Derived here, not copied from pyhf."""
    a0 = alpha0
    rows = []
    for x in (a0, -a0):
        rows.append([x ** i for i in range(1, 7)])
    for x in (a0, -a0):
        rows.append([i * x ** (i - 1) for i in range(1, 7)])
    for x in (a0, -a0):
        rows.append([i * (i - 1) * x ** (i - 2) if i >= 2 else Fraction(0) for i in range(1, 7)])
    # gauss-jordan on fractions
    n = 6
    M = [list(map(Fraction, r)) + [Fraction(int(i == j)) for j in range(n)] for i, r in enumerate(rows)]
    for c in range(n):
        p = next(r for r in range(c, n) if M[r][c] != 0)
        M[c], M[p] = M[p], M[c]
        pv = M[c][c]
        M[c] = [v / pv for v in M[c]]
        for r in range(n):
            if r != c and M[r][c] != 0:
                f = M[r][c]
                M[r] = [v - f * w for v, w in zip(M[r], M[c])]
    return [row[n:] for row in M]


def code4(dn, nom, up, al, alpha0=1.0):
    if abs(al) >= alpha0:
        return code1(dn, nom, up, al)
    ru, rd = up / nom, dn / nom
    lu, ld = math.log(ru), math.log(rd)
    pu, pd = math.pow(ru, alpha0), math.pow(rd, alpha0)
    # rows ordered as in _ainv: p(a0)-1, p(-a0)-1, p'(a0), p'(-a0), p''(a0), p''(-a0)
    b = [pu - 1, pd - 1, lu * pu, -ld * pd, lu * lu * pu, ld * ld * pd]
    Ai = _ainv(Fraction(alpha0))
    bf = [Fraction(x) for x in b]
    coef = [sum(Ai[i][j] * bf[j] for j in range(6)) for i in range(6)]
    x = Fraction(al)
    v = 1 + sum(coef[i] * x ** (i + 1) for i in range(6))
    scale = 1.0 + sum(abs(float(x)) ** (i + 1) * sum(abs(float(Ai[i][j])) * abs(b[j]) for j in range(6)) for i in range(6))
    return float(v), scale


REF = {0: code0, 1: code1, 2: code2, 4: code4, "4p": code4p}
