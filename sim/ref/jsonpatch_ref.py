"""Independent RFC-6902 applier (add/remove/replace/move/copy/test) used as
reference model; works on a deep copy and never touches its input."""
import copy


class PatchError(Exception):
    pass


def _parse(ptr):
    if ptr == "":
        return []
    if not ptr.startswith("/"):
        raise PatchError(f"bad pointer {ptr!r}")
    return [p.replace("~1", "/").replace("~0", "~") for p in ptr[1:].split("/")]


def _walk(doc, parts):
    cur = doc
    for p in parts:
        if isinstance(cur, list):
            try:
                cur = cur[int(p)]
            except (ValueError, IndexError):
                raise PatchError(f"no such index {p}")
        elif isinstance(cur, dict):
            if p not in cur:
                raise PatchError(f"no such member {p}")
            cur = cur[p]
        else:
            raise PatchError("cannot descend into scalar")
    return cur


def _get(doc, ptr):
    return _walk(doc, _parse(ptr))


def _add(doc, ptr, value):
    parts = _parse(ptr)
    if not parts:
        return value
    parent = _walk(doc, parts[:-1])
    last = parts[-1]
    if isinstance(parent, list):
        if last == "-":
            parent.append(value)
        else:
            i = int(last)
            if i < 0 or i > len(parent):
                raise PatchError("index out of range")
            parent.insert(i, value)
    elif isinstance(parent, dict):
        parent[last] = value
    else:
        raise PatchError("cannot add into scalar")
    return doc


def _remove(doc, ptr):
    parts = _parse(ptr)
    if not parts:
        raise PatchError("cannot remove root")
    parent = _walk(doc, parts[:-1])
    last = parts[-1]
    if isinstance(parent, list):
        try:
            return parent.pop(int(last))
        except (ValueError, IndexError):
            raise PatchError("no such index")
    if isinstance(parent, dict):
        if last not in parent:
            raise PatchError("no such member")
        return parent.pop(last)
    raise PatchError("cannot remove from scalar")


def apply_patch(doc, ops):
    doc = copy.deepcopy(doc)
    for op in ops:
        kind = op["op"]
        if kind == "add":
            doc = _add(doc, op["path"], copy.deepcopy(op["value"]))
        elif kind == "remove":
            _remove(doc, op["path"])
        elif kind == "replace":
            _get(doc, op["path"])  # must exist
            parts = _parse(op["path"])
            if not parts:
                doc = copy.deepcopy(op["value"])
            else:
                parent = _walk(doc, parts[:-1])
                if isinstance(parent, list):
                    parent[int(parts[-1])] = copy.deepcopy(op["value"])
                else:
                    parent[parts[-1]] = copy.deepcopy(op["value"])
        elif kind == "move":
            v = _remove(doc, op["from"])
            doc = _add(doc, op["path"], v)
        elif kind == "copy":
            v = copy.deepcopy(_get(doc, op["from"]))
            doc = _add(doc, op["path"], v)
        elif kind == "test":
            if _get(doc, op["path"]) != op["value"]:
                raise PatchError("test failed")
        else:
            raise PatchError(f"unknown op {kind}")
    return doc
