"""Exact reference for counting experiments mu*s + b without nuisance parameters:
closed-form / 1-D root-found profile likelihood statistics and exact Poisson
tail sums.  Independent of pyhf."""
from __future__ import annotations

import math

from scipy.optimize import brentq
from scipy.stats import poisson


def _nll(n, lam):
    # -log Pois(n|lam) up to the n! term (cancels in ratios)
    return sum(l - k * math.log(l) if l > 0 else (0.0 if k == 0 else math.inf) for k, l in zip(n, lam))


def muhat(n, s, b, lo, hi):
    """MLE of mu in [lo, hi] for independent Poisson bins n_i ~ Pois(mu*s_i + b_i)."""
    def score(mu):
        return sum(k * si / (mu * si + bi) - si for k, si, bi in zip(n, s, b))

    if score(lo) <= 0:
        return lo
    if score(hi) >= 0:
        return hi
    return brentq(score, lo, hi, xtol=1e-13, rtol=1e-14)


def stat(kind, mu, n, s, b, lo=0.0, hi=10.0):
    mh = muhat(n, s, b, lo, hi)
    lam = lambda m: [m * si + bi for si, bi in zip(s, b)]  # noqa: E731
    if kind in ("qtilde", "q"):
        if mh > mu:
            return 0.0
        return max(0.0, 2 * (_nll(n, lam(mu)) - _nll(n, lam(mh))))
    if kind == "q0":
        if mh <= 0:
            return 0.0
        return max(0.0, 2 * (_nll(n, lam(0.0)) - _nll(n, lam(mh))))
    raise ValueError(kind)


def grid(lams, eps=1e-13):
    """All count vectors carrying all but eps of the probability, with their probabilities."""
    ranges = []
    for l in lams:
        lo = int(poisson.ppf(eps / 4, l))
        hi = int(poisson.isf(eps / 4, l)) + 1
        ranges.append(range(max(0, lo - 1), hi + 1))
    if len(lams) == 1:
        for k in ranges[0]:
            yield (k,), float(poisson.pmf(k, lams[0]))
    else:
        p1 = {k: float(poisson.pmf(k, lams[1])) for k in ranges[1]}
        for k0 in ranges[0]:
            p0 = float(poisson.pmf(k0, lams[0]))
            for k1 in ranges[1]:
                yield (k0, k1), p0 * p1[k1]


def tail(kind, mu, q_obs, n_obs, s, b, mu_gen, delta, lo=0.0, hi=10.0, cache=None):
    """(P_lo, P_hi): P(q >= q_obs +- delta | counts ~ Pois(mu_gen*s+b)); the observed count vector
    itself always counts (it reproduces q_obs exactly)."""
    # NB q_obs == 0 (observation on the null side of the expectation) is a knife edge: the exact tail is 1,
    # but an implementation whose statistic carries fit noise of 1e-12 legitimately counts only part of the
    # toys with q == 0.  The +-delta interval below covers it: P(q >= delta) <= p <= 1.
    lams = [mu_gen * si + bi for si, bi in zip(s, b)]
    plo = phi = 0.0
    for n, p in grid(lams):
        key = n
        if cache is not None and key in cache:
            q = cache[key]
        else:
            q = stat(kind, mu, n, s, b, lo, hi)
            if cache is not None:
                cache[key] = q
        if tuple(n) == tuple(n_obs):
            plo += p
            phi += p
            continue
        if q >= q_obs + delta:
            plo += p
        if q >= q_obs - delta:
            phi += p
    return plo, phi
