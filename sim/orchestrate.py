"""Top-level check: known-finding replays, workers, minimisation, evidence."""
from __future__ import annotations

import json
import os
import shutil
import subprocess
import sys
import tempfile
import time
from collections import Counter

from . import core, engine
from .minimize import Minimizer

VERIF = engine.VERIF


def _print(*a):
    print(*a, flush=True)


def run_check(prop: str, tier: str, seed: int, workers: int, segments: int | None,
              wall: float | None, write_evidence: bool = True, digests_out: str | None = None) -> int:
    t0 = time.monotonic()
    drv = engine.load_driver(prop)
    tcfg = dict(drv.TIERS[tier])
    if segments is not None:
        tcfg["segments"] = segments
    if wall is not None:
        tcfg["wall"] = wall
    nseg = tcfg["segments"]
    workers = max(1, min(workers, nseg))
    _print(f"[{prop}] tier={tier} seed={seed} segments={nseg} workers={workers} wall_cap={tcfg['wall']}s")

    findings = [e for e in engine.load_known() if e.get("property") == prop]
    printed_known: set[str] = set()
    violations: list[dict] = []
    harness: list[str] = []

    # 1. stored replays of known / fixed findings (fresh interpreters, in parallel)
    from concurrent.futures import ThreadPoolExecutor

    with_replay = [e for e in findings if e.get("replay")]
    with ThreadPoolExecutor(max(1, min(workers, len(with_replay) or 1))) as ex:
        stored = list(ex.map(lambda e: engine.run_replay_child(os.path.join(VERIF, e["replay"]), no_known=True), with_replay))
    for e, res in zip(with_replay, stored):
        path = os.path.join(VERIF, e["replay"])
        with open(path) as f:
            exp = json.load(f)["expected"]
        if e["status"] == "known":
            if engine.same_failure(res, exp):
                _print(f"KNOWN-FINDING: property={prop} {e['id']}: {e['what']}")
                printed_known.add(e["id"])
            elif res.get("status") == "ok":
                _print(f"NOTE: known finding {e['id']} no longer reproduces (stored replay passes)")
            elif res.get("status") == "violation":
                violations.append({"replay": path, "fail": res["fail"], "stored": True})
            else:
                harness.append(f"replay of {e['id']}: {res.get('error')}")
        elif e["status"] == "fixed":
            if res.get("status") == "violation":
                violations.append({"replay": path, "fail": res["fail"], "stored": True})
            elif res.get("status") != "ok":
                harness.append(f"replay of fixed {e['id']}: {res.get('error')}")

    # 2. exploration
    tmp = tempfile.mkdtemp(prefix="verif-run-")
    procs = []
    env = engine.child_env()
    for w in range(workers):
        out = os.path.join(tmp, f"w{w}.jsonl")
        cmd = [engine.VENV_PY, os.path.join(VERIF, "run_check.py"), prop, "--worker",
               "--seed", str(seed), "--tier", tier, "--ks", f"{w}:{nseg}:{workers}",
               "--budget", str(tcfg["wall"]), "--out", out]
        errf = open(os.path.join(tmp, f"w{w}.err"), "w")
        procs.append((w, out, subprocess.Popen(cmd, env=env, cwd=VERIF, stdout=errf, stderr=errf), errf))
    hard = tcfg["wall"] + getattr(drv, "SEGMENT_TIMEOUT", 300) + 120
    results, summaries = [], []
    for w, out, p, errf in procs:
        try:
            rc = p.wait(timeout=max(5.0, hard - (time.monotonic() - t0)))
        except subprocess.TimeoutExpired:
            p.kill()
            p.wait()
            rc = -9
        errf.close()
        got_summary = False
        if os.path.exists(out):
            with open(out) as f:
                for line in f:
                    try:
                        r = json.loads(line)
                    except ValueError:
                        continue
                    if r.get("summary"):
                        summaries.append(r)
                        got_summary = True
                    else:
                        results.append(r)
        if rc != 0 or not got_summary:
            with open(os.path.join(tmp, f"w{w}.err")) as f:
                tail = f.read()[-3000:]
            harness.append(f"worker {w} rc={rc} summary={got_summary}: {tail}")
    shutil.rmtree(tmp, ignore_errors=True)

    results.sort(key=lambda r: r["k"])
    merged = core.Collect.merge([s["collect"] for s in summaries])
    for r in results:
        if r["status"] == "harness":
            harness.append(f"segment {r['k']}: {r.get('error')}\n{r.get('tb', '')}")
    if digests_out:
        with open(digests_out, "w") as f:
            json.dump({str(r["k"]): r["digest"] for r in results}, f, sort_keys=True)

    # 3. violations -> minimise -> confirm in a fresh interpreter
    viol = [r for r in results if r["status"] == "violation"]
    seen_sigs = set()
    os.makedirs(os.path.join(VERIF, "replays"), exist_ok=True)
    min_budget = tcfg.get("min_budget", 90)
    for r in viol:
        sk = core.canon(drv.dedupe_key(r["fail"]["sig"]) if hasattr(drv, "dedupe_key") else r["fail"]["sig"])
        if sk in seen_sigs:
            continue
        if len(seen_sigs) >= getattr(drv, "MAX_REPORTS", 4):
            break
        seen_sigs.add(sk)
        rp = {"property": prop, "seed": seed, "tier": tier, "segment": r["k"], "prelude": r.get("prelude", []),
              "cfg": r["cfg"], "ops": r["ops"], "expected": r["fail"]}
        path = os.path.join(VERIF, "replays", f"{prop}-{seed}-{r['k']}.json")
        with open(path, "w") as f:
            json.dump(rp, f, indent=1)
        first = engine.run_replay_child(path)
        if not engine.same_failure(first, r["fail"]):
            harness.append(f"segment {r['k']}: failure did not reproduce in a fresh interpreter "
                           f"(nondeterministic harness): first={r['fail']} replay={first.get('fail') or first.get('status')}")
            continue
        m = Minimizer(rp, budget=min_budget, simplify=getattr(drv, "simplify", None))
        small = m.run()
        with open(path, "w") as f:
            json.dump(small, f, indent=1)
        final = engine.run_replay_child(path)
        if not engine.same_failure(final, r["fail"]):
            with open(path, "w") as f:   # fall back to the unminimised trace, known to replay
                json.dump(rp, f, indent=1)
            final = first
        violations.append({"replay": path, "fail": final["fail"], "segment": r["k"]})

    # known findings that fired during exploration
    for kid, n in sorted(merged["known"].items()):
        if kid not in printed_known:
            e = next((e for e in findings if e["id"] == kid), None)
            if e:
                _print(f"KNOWN-FINDING: property={prop} {e['id']}: {e['what']}")
                printed_known.add(kid)

    wall_s = time.monotonic() - t0
    done = sum(s["done"] for s in summaries)
    # 4. evidence (never from a survey run: its probes are triage output, not coverage)
    if write_evidence and not core.SURVEY:
        samples = []
        for s in summaries:
            samples.extend(s.get("samples", []))
        samples = sorted(samples, key=lambda x: x["segment"])[:3]
        ev = {
            "property_id": prop,
            "tier": tier,
            "seed": seed,
            "level": drv.LEVEL,
            "coverage": {
                "evaluations": done,
                "distinct_nontrivial": len(merged["nontrivial"]),
                "rule": drv.RULE,
                "samples": samples or [{"note": "no short non-trivial segment in this run"}],
                "segments_requested": nseg,
                "segments_executed": done,
                "segments_per_hour": round(done / max(wall_s, 1e-9) * 3600),
                "ops_total": sum(merged["ops"].values()),
                "logical_steps": sum(merged["ops"].values()),
                "simulated_time_note": "pyhf has no clock; simulated time is the logical op counter",
                "ops_by_kind": dict(sorted(merged["ops"].items())),
                "faults_fired": dict(sorted(merged["faults"].items())),
                "probes": dict(sorted(merged["probes"].items())),
                "oracle_evaluations": dict(sorted(merged["oracle_evals"].items())),
                "distinct_states": len(merged["states"]),
                "state_measure": getattr(drv, "STATE_MEASURE", ""),
                "interleaving_measure": "distinct_op_trigrams = distinct consecutive triples of op kinds executed",
                "distinct_op_trigrams": len(merged["trigrams"]),
                "known_findings_seen": dict(sorted(merged["known"].items())),
                "components": drv.COMPONENTS,
                "event_log_sha256": core.short(core.canon([[r["k"], r["digest"]] for r in results]), 64),
                "workers": workers,
                "max_segment_wall_s": max([r.get("t", 0) for r in results] or [0]),
                "slowest_segment": max(results, key=lambda r: r.get("t", 0))["k"] if results else None,
                "harness_errors": len(harness),
            },
            "assumptions": drv.ASSUMPTIONS,
            "wall_s": round(wall_s, 2),
            "violations": len(violations),
        }
        if hasattr(drv, "extra_evidence"):
            ev["coverage"].update(drv.extra_evidence(merged, summaries))
        zero = [p for p in getattr(drv, "EXPECTED_PROBES", []) if not merged["probes"].get(p)]
        if zero:
            ev["coverage"]["probes_stuck_at_zero"] = zero
            _print(f"WARNING: probes stuck at zero: {zero}")
        os.makedirs(os.path.join(VERIF, "evidence"), exist_ok=True)
        with open(os.path.join(VERIF, "evidence", f"{prop}.json"), "w") as f:
            json.dump(ev, f, indent=1, sort_keys=True)

    if results:
        slow = max(results, key=lambda r: r.get("t", 0))
        _print(f"[{prop}] slowest segment k={slow['k']} took {slow.get('t', 0)}s (timeout {getattr(drv, 'SEGMENT_TIMEOUT', 300)}s)")
    _print(f"[{prop}] segments={done}/{nseg} ops={sum(merged['ops'].values())} "
           f"nontrivial={len(merged['nontrivial'])} states={len(merged['states'])} "
           f"faults={sum(merged['faults'].values())} known_hits={sum(merged['known'].values())} wall={wall_s:.1f}s")
    for v in violations:
        _print(f"VIOLATION property={prop} replay={v['replay']}")
        _print(f"  oracle={v['fail']['oracle']} sig={core.canon(v['fail']['sig'])}")
        _print(f"  detail={v['fail']['detail'][:600]}")
    if violations:
        return 1
    if harness:
        for h in harness[:5]:
            _print("HARNESS-ERROR:", h[:3000])
        return 2
    if done == 0:
        _print("HARNESS-ERROR: no segment executed")
        return 2
    return 0
