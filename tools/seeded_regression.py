#!/usr/bin/env python3
"""Re-run the registered checks against every independently seeded change in seeded/<id>/patch.diff.

Each patch is applied to a scratch copy of /repo/src (under $VERIF_SCRATCH or /dev/shm, removed right after);
the property's check is run against it through VERIF_REPO_SRC.  A patch that no longer applies to the current
tree (it was written against an earlier commit) is reported as STALE, not as a miss.

  python3 tools/seeded_regression.py [name-substring ...] [--parallel 2] [--seed 7]
Writes seeded/regression_last.json.
"""
import argparse
import json
import os
import re
import shutil
import subprocess
import sys
import tempfile
from concurrent.futures import ThreadPoolExecutor

HERE = os.path.dirname(os.path.dirname(os.path.abspath(__file__)))
SEGMENTS = {"C03": 500, "C11": 280, "C14": 112, "C17": 500, "C18": 1000, "C19": 640, "C20": 80}


def run_one(name, seed, workers):
    d0 = os.path.join(HERE, "seeded", name)
    meta = json.load(open(os.path.join(d0, "meta.json")))
    prop = meta["property"]
    base = os.environ.get("VERIF_SCRATCH") or ("/dev/shm" if os.access("/dev/shm", os.W_OK) else tempfile.gettempdir())
    d = tempfile.mkdtemp(prefix=f"verif-seeded-{name}-", dir=base)
    try:
        shutil.copytree("/repo/src", os.path.join(d, "src"), ignore=shutil.ignore_patterns("__pycache__", "*.pyc"))
        p = subprocess.run(["patch", "-p1", "--no-backup-if-mismatch", "-s", "-f", "-i", os.path.join(d0, "patch.diff")],
                           cwd=d, capture_output=True, text=True)
        if p.returncode != 0:
            return name, prop, "STALE", (p.stdout + p.stderr).strip().splitlines()[-1][:160] if (p.stdout + p.stderr).strip() else "patch failed"
        env = dict(os.environ, VERIF_REPO_SRC=os.path.join(d, "src"))
        env.pop("VERIF_CHILD", None)
        r = subprocess.run([sys.executable, os.path.join(HERE, "run_check.py"), prop, "--segments", str(SEGMENTS[prop]), "--wall", "900",
                            "--workers", str(workers), "--no-evidence", "--seed", str(seed)], env=env, capture_output=True, text=True, cwd=HERE)
        first = re.search(r"^  oracle=.*$", r.stdout, re.M)
        if r.returncode == 1 and "VIOLATION" in r.stdout:
            return name, prop, "CAUGHT", first.group(0).strip()[:200] if first else ""
        if r.returncode == 0 and meta.get("moot_since"):
            return name, prop, "MOOT", "no longer breaks the property since " + meta["moot_since"]
        return name, prop, "MISSED" if r.returncode == 0 else f"rc={r.returncode}", r.stdout[-300:]
    finally:
        shutil.rmtree(d, ignore_errors=True)


def main():
    ap = argparse.ArgumentParser()
    ap.add_argument("names", nargs="*")
    ap.add_argument("--parallel", type=int, default=2)
    ap.add_argument("--seed", type=int, default=7)
    a = ap.parse_args()
    names = sorted(n for n in os.listdir(os.path.join(HERE, "seeded")) if os.path.isdir(os.path.join(HERE, "seeded", n))
                   and (not a.names or any(x in n for x in a.names)))
    workers = max(2, 16 // a.parallel)
    out = {}
    with ThreadPoolExecutor(a.parallel) as ex:
        # distinct seed per change: replay file names must not collide between parallel runs
        for name, prop, verdict, info in ex.map(lambda t: run_one(t[1], a.seed * 1000 + t[0], workers), list(enumerate(names))):
            print(f"{verdict:8s} {name:60s} {info[:150]}", flush=True)
            out[name] = {"property": prop, "verdict": verdict, "info": info}
            with open(os.path.join(HERE, "seeded", "regression_last.json"), "w") as f:   # incremental: a long run may be cut short
                json.dump(out, f, indent=1, sort_keys=True)
    with open(os.path.join(HERE, "seeded", "regression_last.json"), "w") as f:
        json.dump(out, f, indent=1, sort_keys=True)
    n = {v: sum(1 for x in out.values() if x["verdict"] == v) for v in sorted({x["verdict"] for x in out.values()})}
    print("SEEDED-REGRESSION", n)
    return 0 if not any(x["verdict"] == "MISSED" for x in out.values()) else 1


if __name__ == "__main__":
    sys.exit(main())
