#!/bin/bash
# usage: soak.sh "<props>" "<seeds>" [tier] [extra args]   - runs each check at each seed without writing evidence, prints one line per run
PROPS=$1; SEEDS=$2; TIER=${3:-quick}; shift 3
for s in $SEEDS; do for p in $PROPS; do
  out=$(python3 run_check.py $p --tier $TIER --seed $s --no-evidence "$@" 2>&1); rc=$?
  echo "SOAK $p seed=$s tier=$TIER rc=$rc $(echo "$out" | grep -E 'segments=[0-9]+/' | tail -1)"
  if [ $rc -ne 0 ]; then echo "$out" | grep -E "^VIOLATION|^  oracle|^  detail|HARNESS" | head -12; fi
done; done
