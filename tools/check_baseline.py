#!/usr/bin/env python3
"""Compare a junit xml of the repository's test-suite with BASELINE.json's stable_pass list."""
import json, sys
import xml.etree.ElementTree as ET
b = json.load(open('/root/.vp/BASELINE.json'))
stable = set(b['stable_pass'])
root = ET.parse(sys.argv[1]).getroot()
status = {}
for tc in root.iter('testcase'):
    name = f"{tc.attrib.get('classname')}::{tc.attrib.get('name')}"
    bad = any(ch.tag in ('failure', 'error') for ch in tc)
    skipped = any(ch.tag == 'skipped' for ch in tc)
    status[name] = 'fail' if bad else ('skip' if skipped else 'pass')
missing = [t for t in stable if t not in status]
notpass = [t for t in stable if status.get(t) not in ('pass',) and t in status]
print('stable', len(stable), 'seen', len(status), 'stable not passing', len(notpass), 'stable missing', len(missing))
for t in sorted(notpass)[:40]: print('  NOTPASS', t, status[t])
for t in sorted(missing)[:10]: print('  MISSING', t)
newpass = [t for t, s in status.items() if s == 'pass' and t not in stable]
print('passing but not in stable list:', len(newpass), newpass[:10])
sys.exit(1 if notpass or missing else 0)
