#!/usr/bin/env python3
"""Regenerates MANIFEST.json from the table below (kept in one place so that the
manifest stays valid and consistent with the drivers that exist)."""
import json, os
HERE = os.path.dirname(os.path.dirname(os.path.abspath(__file__)))
NA = {
 "C01":"expected rates are a pure function of (spec, parameters, interpolation setting); no history, randomness, I/O, process boundary or fault in the statement - generating many inputs would be input sampling, not simulation (DESIGN 7)",
 "C02":"log-likelihood is a pure function of (spec, parameters, data); nothing a simulator can own (DESIGN 7)",
 "C04":"scalar special functions of their arguments; pure (DESIGN 7)",
 "C05":"deterministic optimisers on a pure objective; feasibility/optimality is a statement about inputs and flags (the jit-cache history aspect is exercised inside C11) (DESIGN 7)",
 "C06":"case definitions of test statistics as functions of two fit results; pure (DESIGN 7)",
 "C07":"closed-form maps (q, q_A) -> p-values; pure (DESIGN 7)",
 "C08":"analytic agreement and result layout over (model, data, mu, flags); pure (DESIGN 7)",
 "C09":"root of a deterministic curve; no state outlives one call (DESIGN 7)",
 "C10":"batched vs row-wise evaluation of one pure function (DESIGN 7)",
 "C12":"layout facts per input; no sequence in the statement (DESIGN 7)",
 "C13":"derivative of a pure function; autodiff is deterministic (DESIGN 7)",
 "C15":"metamorphic relations between two pure evaluations (DESIGN 7)",
 "C16":"combine/prune/rename/sort are pure document-to-document functions (DESIGN 7)",
}
CHECKS = {
 "C03": ("exploration", "6.1",
   "Seeded search over call histories (alpha-set shape changes, backend/precision switches, drops, GC) on pools of interpolator instances (incl. sibling instances evaluated back to back before anything is judged); every call is judged against a fresh instance (history clause), the closed-form piecewise reference and the scalar implementation. The history clause is searched; 'for all alpha' is sampled at breakpoint-biased pool points inside the histories.",
   "reference formulae in sim/ref/interp.py (code 2 in its continuous form, code 4 polynomial from an exactly solved system); 64-eps error model in the working precision; clean batch = evidence over sampled histories",
   "deterministic simulation: seeded call-history search with switch/GC faults, fresh-instance + closed-form reference oracles, ddmin replay"),
 "C11": ("exploration", "6.2",
   "Seeded search over histories of create/switch/drop/gc/evaluate/infer on the real global backend register and event bus; each surviving object (single, or several evaluated back to back before any twin is built) is compared with a twin built fresh under the current backend on evaluation and on inference (fits, test statistics, asymptotic and seeded toy-based hypotests, limits); a clean batch is evidence over the sampled histories, not proof.",
   "twin built by the same pyhf code defines the reference; 8-ulp tolerance; GC scheduled by the simulator; process restart emulated by reset",
   "deterministic simulation: seeded history search with scheduled GC/drop faults, twin-object oracle, ddmin replay"),
 "C14": ("exploration", "6.3",
   "Every random draw is owned by the simulator: scripted samplers (rate-revealing, stratified-quantile) make the sampling and toy p-value checks exact, seeded real generators add exact-tail statistical checks at 1e-9; the calculator's reported p-values are judged as exact tail fractions; the call history of one toy experiment (also under the caller's own init/bounds/fixed settings) is recorded and compared with the prescribed order.",
   "exact Poisson tail sums for counting models as reference; scripted sampler replaces tensorlib.poisson_dist/normal_dist().sample only; per-test false-alarm probability 1e-9",
   "deterministic simulation: owned RNG (scripted sampler stub + logged seeds), recorded call history vs reference, exact-tail oracles"),
 "C17": ("fault_enumeration", "6.4",
   "Per generated (workspace, patch-set) document pair every leaf of the workspace is corrupted once, plus key additions/removals, benign re-serialisations and one corruption per recorded digest, interleaved with load/lookup/verify/apply judged against a reference lookup table, canonical-text equality and an independent RFC-6902 applier; half of the segments hand verify/apply one long-lived in-memory object that is corrupted and restored in place; results of apply are edited in place and patches re-applied. Exhaustive over single-leaf faults per document; documents (incl. look-alike keys of other iterable types, verbatim duplicates, empty patches, cross-section moves, non-ASCII names) are sampled.",
   "own RFC-6902 applier and canonical JSON equality as reference; documents generated schema-valid",
   "fault enumeration on stored documents inside seeded op sequences (flip/add/remove/reserialise/restore), reference-model oracles, ddmin replay"),
 "C18": ("exploration", "6.5",
   "Seeded sessions of export/import/chdir/re-export/rmtree/restart over a real scratch directory with injected write failures, crashes, torn and missing files; every import of a completely exported directory must reproduce the original's structure and log-likelihood whatever happened before, including in-place edits of earlier import results.",
   "uproot is the ROOT codec; reference disk model {absent, complete(ws), torn}; likelihood compared at seeded points by parameter name; 1e-9 relative",
   "deterministic simulation: seeded session histories over a simulated disk with I/O fault injection and restarts, disk reference model, ddmin replay"),
 "C19": ("exploration", "6.6",
   "Seeded shell sessions: each op is one CLI invocation (options drawn from the subcommand's option space, input from file or stdin, output to file or stdout) after a simulated process restart, on a scratch directory whose files are products of earlier invocations and may be torn or missing; judged against the library call on the same bytes.",
   "click CliRunner + canonical reset as process model (validated against real subprocesses in the thorough tier); option semantics re-implemented by hand in the reference",
   "deterministic simulation: seeded CLI session histories over a simulated disk with file faults and process restarts, library-call reference, ddmin replay"),
 "C20": ("fault_enumeration", "6.7",
   "For each generated valid spec (accepted un-faulted) every fault class of the statement is injected at every applicable position, plus sampled pairs (incl. same-class, compensating and same-parameter-name pairs) and benign controls, through both construction routes and their validate=False / batched variants; outcome must be one of pyhf's own exceptions. Exhaustive over positions per spec; specs sampled. Two accepted cases are recorded as known findings.",
   "fault injector defines 'structurally inconsistent'; controls keep it honest; exception must be defined in pyhf.exceptions",
   "single-step fault injection enumerated over all positions of seeded specs, control look-alikes, ddmin replay"),
}
def main():
    have = [p for p in sorted(CHECKS) if os.path.exists(os.path.join(HERE, "props", p.lower() + ".py"))]
    checks = []
    for pid in have:
        level, ref, text, note, tech = CHECKS[pid]
        checks.append({"property_id": pid,
          "quick_cmd": f"python3 run_check.py {pid} --tier quick",
          "thorough_cmd": f"python3 run_check.py {pid} --tier thorough",
          "evidence_file": f"/verif/evidence/{pid}.json",
          "replay_cmd_template": f"python3 run_check.py {pid} --replay {{path}}",
          "engine": "sim",
          "level_claimed": {"category": level, "text": text, "design_ref": ref},
          "level_note": note, "technique": tech})
    na = dict(NA)
    for pid in CHECKS:
        if pid not in have:
            na[pid] = "check not built yet in this commit (claimed in DESIGN 6; moves to checks when its driver lands)"
    m = {"version": 1, "setup_cmd": "python3 setup_check.py",
      "hooks": {"guard": "PYHF_VERIF (unused: no hook was needed)",
                "enable": "none - every seam (set_backend, events, gc, RNG seeds, open/uproot as seen from pyhf modules, cwd) is reachable from outside; checks import pyhf from /repo/src via PYTHONPATH",
                "baseline_off_cmd": "cd /repo && /venv/bin/python -m pytest -ra -q -p no:cacheprovider --timeout=900 --continue-on-collection-errors",
                "source_commits": [], "add_only": True},
      "engines": [{"name": "sim", "path": "/verif/sim", "serves_properties": have,
        "kind_free_text": "deterministic simulation: seeded op/fault histories over pyhf's process-global state (backend register, event bus, GC, RNG, file cache, scratch disk, process restarts), operation-level oracles against reference models, ddmin minimisation, JSON replay files"}],
      "checks": checks,
      "not_applicable": [{"property_id": k, "reason": v} for k, v in sorted(na.items())],
      "notes": "One engine (sim/), one driver per claimed property (props/). Exit 0 pass, 1 VIOLATION, 2 harness error. known_findings.json lists genuine defects: 'fixed' entries were repaired by fix: commits in /repo and suppress nothing; 'known' entries print KNOWN-FINDING."}
    with open(os.path.join(HERE, "MANIFEST.json"), "w") as f:
        json.dump(m, f, indent=1)
    print("checks:", have)
main()
