#!/bin/bash
# usage: confirm_seeded.sh <worktree> <seeded-name> "<pytest targets>"
# Confirms an independently seeded breakage: demo fails with the change, passes without, named tests pass with it.
set -u
WT=$1; NAME=$2; TESTS=$3
OUT=/verif/seeded/$NAME
cd $WT || exit 2
git diff -- src > /tmp/confirm_$NAME.diff
if ! diff -q /tmp/confirm_$NAME.diff _seeded/patch.diff >/dev/null; then echo "NOTE: worktree diff differs from _seeded/patch.diff; using the worktree diff"; fi
[ -s /tmp/confirm_$NAME.diff ] || { echo "empty diff"; exit 2; }
export PYTHONPATH=$WT/src PYTHONDONTWRITEBYTECODE=1 TF_CPP_MIN_LOG_LEVEL=3
/venv/bin/python _seeded/demo.py > /tmp/confirm_$NAME.with.log 2>&1; RC_WITH=$?
git apply -R /tmp/confirm_$NAME.diff || { echo "cannot reverse"; exit 2; }
/venv/bin/python _seeded/demo.py > /tmp/confirm_$NAME.without.log 2>&1; RC_WITHOUT=$?
git apply /tmp/confirm_$NAME.diff || { echo "cannot re-apply"; exit 2; }
echo "demo with change rc=$RC_WITH ; without rc=$RC_WITHOUT"
/venv/bin/python -m pytest -q -p no:cacheprovider $TESTS > /tmp/confirm_$NAME.tests.log 2>&1
TESTLINE=$(grep -E "passed|failed" /tmp/confirm_$NAME.tests.log | tail -1)
echo "tests with change: $TESTLINE"
mkdir -p $OUT
cp /tmp/confirm_$NAME.diff $OUT/patch.diff; cp _seeded/demo.py $OUT/demo.py; cp _seeded/notes.md $OUT/notes.md 2>/dev/null
tail -5 /tmp/confirm_$NAME.with.log > $OUT/demo_with_change.log
echo "{\"demo_rc_with_change\": $RC_WITH, \"demo_rc_without_change\": $RC_WITHOUT, \"tests_run\": \"$TESTS\", \"tests_result_with_change\": \"$TESTLINE\"}" > $OUT/confirm.json
