#!/bin/bash
# usage: run_against_seeded.sh <seeded-name> <PROP> <segments>
# Applies a seeded change to /repo, runs the check, and undoes the change straight afterwards.
N=$1; P=$2; S=$3
git -C /repo apply /verif/seeded/$N/patch.diff || { echo "apply failed"; exit 2; }
trap 'git -C /repo checkout -- . ' EXIT
cd /verif && python3 run_check.py $P --segments $S --no-evidence 2>&1 | grep -E "^VIOLATION|^\[$P\] segments" | head -3
