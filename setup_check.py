#!/usr/bin/env python3
"""MANIFEST.setup_cmd: nothing is compiled or installed; verify the interpreter."""
import os, subprocess, sys
here = os.path.dirname(os.path.abspath(__file__))
for d in ("evidence", "replays"):
    os.makedirs(os.path.join(here, d), exist_ok=True)
code = "import pyhf, numpy, scipy, jax, torch, tensorflow, iminuit, uproot, click, jsonpatch; print('pyhf', pyhf.__version__, 'from', pyhf.__file__)"
env = dict(os.environ, PYTHONPATH="/repo/src", PYTHONDONTWRITEBYTECODE="1", TF_CPP_MIN_LOG_LEVEL="3", CUDA_VISIBLE_DEVICES="")
r = subprocess.run(["/venv/bin/python", "-c", code], env=env)
sys.exit(r.returncode)
