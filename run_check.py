#!/usr/bin/env python3
"""Entry point of every check.

  python3 run_check.py C11 --tier quick|thorough [--workers N] [--segments N] [--wall S]
  python3 run_check.py C11 --replay replays/C11-...json
Exit 0: property held on everything explored; 1: VIOLATION line printed;
2: harness error (never counts as a pass, never prints VIOLATION).
"""
import argparse
import json
import os
import sys

HERE = os.path.dirname(os.path.abspath(__file__))
VENV_PY = "/venv/bin/python"


def reexec():
    """Run under the repository's interpreter with a pinned environment."""
    if os.environ.get("VERIF_CHILD") == "1" and os.path.realpath(sys.executable).startswith(os.path.realpath("/venv")):
        return
    sys.path.insert(0, HERE)
    from sim import engine

    env = engine.child_env()
    os.execve(VENV_PY, [VENV_PY, os.path.abspath(__file__)] + sys.argv[1:], env)


def parse_ks(s):
    a, b, c = (int(x) for x in s.split(":"))
    return list(range(a, b, c))


def main():
    if os.environ.get("VERIF_CHILD") != "1" or sys.executable != VENV_PY:
        reexec()
    sys.path.insert(0, HERE)
    ap = argparse.ArgumentParser()
    ap.add_argument("prop")
    ap.add_argument("--tier", default=os.environ.get("VERIF_TIER", "quick"), choices=["quick", "thorough"])
    ap.add_argument("--seed", type=int, default=None)
    ap.add_argument("--workers", type=int, default=int(os.environ.get("VERIF_WORKERS", "16")))
    ap.add_argument("--segments", type=int, default=None)
    ap.add_argument("--wall", type=float, default=None)
    ap.add_argument("--replay", default=None)
    ap.add_argument("--replay-json", default=None)
    ap.add_argument("--worker", action="store_true")
    ap.add_argument("--ks", default=None)
    ap.add_argument("--budget", type=float, default=1e9)
    ap.add_argument("--out", default=None)
    ap.add_argument("--no-evidence", action="store_true")
    ap.add_argument("--digests-out", default=None)
    a = ap.parse_args()

    from sim import engine

    seed = a.seed if a.seed is not None else int(os.environ.get("VERIF_SEED", engine.DEFAULT_SEED))

    if a.worker:
        return engine.worker_main(a.prop, seed, a.tier, parse_ks(a.ks), a.budget, a.out)
    if a.replay_json:
        res = engine.replay_file(a.replay_json)
        print("RESULT " + json.dumps(res))
        return 0
    if a.replay:
        with open(a.replay) as f:
            rp = json.load(f)
        res = engine.run_replay_child(os.path.abspath(a.replay))
        if res.get("status") == "violation":
            same = engine.same_failure(res, rp["expected"])
            print(f"VIOLATION property={rp['property']} replay={a.replay}")
            print(f"  oracle={res['fail']['oracle']} seq={res['fail']['seq']} same_as_recorded={same}")
            print(f"  detail={res['fail']['detail'][:1500]}")
            return 1
        if res.get("status") == "ok":
            print(f"replay passed: property={rp['property']} (no violation)")
            return 0
        print("HARNESS-ERROR:", res.get("error"), res.get("tb", ""))
        return 2
    from sim import orchestrate

    return orchestrate.run_check(a.prop.upper(), a.tier, seed, a.workers, a.segments, a.wall,
                                 write_evidence=not a.no_evidence, digests_out=a.digests_out)


if __name__ == "__main__":
    sys.exit(main())
